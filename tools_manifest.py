#!/usr/bin/env python3
"""Regenerates MANIFEST.json from the table below (kept in one place so that it stays valid)."""
import json

CLAIMED = {
    'C03': dict(design='§4 C03, App. A.1', text='For every Cache method of the single-client API: from every cache state satisfying the representation invariant (<= N rows, all columns symbolic, inline and file-backed rows), every argument, clock reading and configuration (4 eviction policies, statistics on/off, symbolic cull_limit/size_limit/page_count), one call of the real method body returns what the reference dictionary returns and leaves the reference post-state; decided per path by z3 (bounded: N<=2 quick / <=4 thorough, PAGE in {1,2,3}); histories by induction over Inv.',
                note='Assumes the SQL/FS/clock models (validated differentially against sqlite3 each run), integer-valued times, page-size cut; iteration not interleaved with mutation; tag_index DDL ignored.'),
    'C04': dict(design='§4 C04', text='Expiry clauses of the same step obligations: an item with now > expire_time is never returned, revived, incremented, touched, popped or deleted as live, one with now < expire_time or no expiry always is (the tie now == expire_time is left free); expire(now) removes exactly the rows with expire_time < now for PAGE in {1,2,3} incl. shared expiry times and non-positive expiry times; lazy cull removes only expired rows within cull_limit; decided by z3 over all clock readings/ttl within the row bound. Stored expiry times of any sign, zero included, for every lookup and queue read.',
                note='Same trusted base as C03; the tie instant is unspecified by the statement and accepted either way.'),
    'C08': dict(design='§4 C08', text='Inv(post) asserted after every single-client step obligation: Settings.count/size equal the rows, every file-backed row names a distinct complete file of the recorded size, no unreferenced *.val file; trigger arithmetic interpreted from the DDL the real __init__ issues. Calls rejected for an invalid argument (unknown queue side, non-numeric expiry, non-string prefix, a value without read()) change nothing and leave no file (found and repaired: push with an unknown side). One injected failure inside an operation of a transact() block whose caller handles it and commits (found and repaired: the failed write\'s file stayed behind; a failed replace removed the old file).',
                note='Failure/timeout/concurrency histories are added by the fault, lock and interference obligations as they land; empty directories are not tracked for symbolically named files (harmless by the statement).'),
    'C09': dict(design='§4 C09', text='Eviction clauses over symbolic store/access times, counts, sizes, cull_limit, size_limit and page_count: victims of a write only if volume >= size_limit, expired first, policy order (ties free), at most cull_limit, none under policy none; get/incr refresh recency/frequency metadata; cull() removes all expired rows, evicts in policy order only above the limit, stops only at/below the limit or when empty and returns the number removed (BATCH in {1,2}).',
                note='Same trusted base as C03; page_count is an arbitrary integer >= 1 on every read.'),
}
NOT_YET = {
    'C01': 'check not built yet in this round (planned: E2 CrossHair obligations on Disk.store/fetch)',
    'C02': 'check not built yet in this round',
    'C05': 'check not built yet in this round',
    'C06': 'check not built yet in this round',
    'C07': 'check not built yet in this round',
    'C10': 'check not built yet in this round',
    'C11': 'check not built yet in this round',
    'C12': 'check not built yet in this round',
    'C13': 'check not built yet in this round',
    'C14': 'check not built yet in this round',
    'C15': 'check not built yet in this round',
    'C16': 'check not built yet in this round',
    'C17': 'check not built yet in this round',
    'C18': 'check not built yet in this round',
    'C19': 'check not built yet in this round',
    'C20': 'check not built yet in this round',
}


def main():
    import importlib.util, os
    here = os.path.dirname(os.path.abspath(__file__))
    extra = os.path.join(here, 'manifest_table.py')
    claimed, not_yet = dict(CLAIMED), dict(NOT_YET)
    if os.path.exists(extra):
        spec = importlib.util.spec_from_file_location('manifest_table', extra)
        m = importlib.util.module_from_spec(spec)
        spec.loader.exec_module(m)
        claimed.update(m.CLAIMED)
        for k in m.CLAIMED:
            not_yet.pop(k, None)
        not_yet.update(getattr(m, 'NOT_APPLICABLE', {}))
    checks = []
    for pid in sorted(claimed):
        c = claimed[pid]
        checks.append({
            'property_id': pid,
            'quick_cmd': './run %s quick' % pid,
            'thorough_cmd': './run %s thorough' % pid,
            'evidence_file': 'evidence/%s.json' % pid,
            'replay_cmd_template': './run %s quick --replay {path}' % pid,
            'engine': c.get('engine', 'zpath (E1)'),
            'level_claimed': {'category': 'other', 'text': c['text'], 'design_ref': c['design']},
            'level_note': c['note'],
            'technique': c.get('technique', 'solver-based checking: bounded symbolic execution of the real code (z3 path exploration), counterexamples replayed on the real stack'),
        })
    man = {
        'version': 1,
        'setup_cmd': './setup.sh',
        'hooks': {'guard': 'GRANTJENKS_PYTHON_DISKCACHE_VERIF', 'enable': 'no hooks are needed: every seam is a module global rebound by the loader (symdc/loader.py, symdc/env.py)',
                  'baseline_off_cmd': 'cd /repo && /venv/bin/python -m pytest -ra -q -p no:cacheprovider --timeout=900 --continue-on-collection-errors',
                  'source_commits': [], 'add_only': True},
        'engines': [
            {'name': 'zpath (E1)', 'path': 'symdc/zpath.py', 'serves_properties': sorted(p for p in claimed if 'E1' in claimed[p].get('engine', 'zpath (E1)')),
             'kind_free_text': 'own z3-backed dynamic symbolic execution of the real Python method bodies by re-execution over operator-overloading proxies; SQL interpreted over symbolic tables'},
            {'name': 'CrossHair (E2)', 'path': 'symdc/ch_driver.py', 'serves_properties': sorted(p for p in claimed if 'E2' in claimed[p].get('engine', '')),
             'kind_free_text': 'crosshair-tool 0.0.110 symbolic execution with z3 for str/bytes/type-dispatch obligations'},
        ],
        'checks': checks,
        'not_applicable': [{'property_id': k, 'reason': v} for k, v in sorted(not_yet.items()) if k not in claimed],
        'notes': 'Exit codes of ./run: 0 holds within bounds; 1 VIOLATION (reproduced on the real stack); 2 inconclusive; 3 harness error. Checks read the tree under test from VERIF_REPO (default /repo).',
    }
    json.dump(man, open(os.path.join(here, 'MANIFEST.json'), 'w'), indent=1)
    import jsonschema
    jsonschema.validate(man, json.load(open('/root/.vp/MANIFEST.schema.json')))
    print('MANIFEST.json written:', len(checks), 'checks;', len(man['not_applicable']), 'not claimed')


if __name__ == '__main__':
    main()
