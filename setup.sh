#!/bin/sh
# Builds /verif/.venv: overlay on /venv (diskcache deps, Django, pytest) + crosshair-tool, z3-solver, cvc5
# from the offline wheelhouse.  Idempotent; safe under concurrent invocation (flock).
set -e
HERE="$(cd "$(dirname "$0")" && pwd)"
V="$HERE/.venv"
exec 9>"$HERE/.setup.lock"
flock 9
if [ -x "$V/bin/python" ] && "$V/bin/python" -c "import crosshair, z3, cvc5, jsonschema" 2>/dev/null; then
  exit 0
fi
rm -rf "$V"
/venv/bin/python -m venv "$V"
SP="$("$V/bin/python" -c 'import sysconfig; print(sysconfig.get_paths()["purelib"])')"
echo "import site; site.addsitedir('/venv/lib/python3.12/site-packages')" > "$SP/_overlay.pth"
PIP_NO_INDEX=1 "$V/bin/python" -m pip install -q --no-index --find-links /opt/veriftools/wheels crosshair-tool z3-solver cvc5 jsonschema >/dev/null
"$V/bin/python" -c "import crosshair, z3, cvc5, jsonschema; print('venv ok', z3.get_version_string())"
