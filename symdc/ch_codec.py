"""Pure-Python UTF-8 encoder / decoder with the standard error handlers, used behind the E2 (CrossHair) file seams so
that a symbolic str stays symbolic through open(..., encoding='UTF-8', errors=...) (the C codec realises it).
selftest() compares both functions with CPython's codec on random and boundary inputs; it runs once per process."""
import random

HANDLERS = ('strict', 'surrogateescape', 'surrogatepass', 'ignore', 'replace')


def utf8_encode(s, errors='strict'):
    if errors not in HANDLERS:
        return s.encode('utf-8', errors)
    out = []
    for i, ch in enumerate(s):
        cp = ord(ch)
        if cp < 0x80:
            out.append(bytes([cp]))
        elif cp < 0x800:
            out.append(bytes([0xC0 | (cp >> 6), 0x80 | (cp & 0x3F)]))
        elif 0xD800 <= cp <= 0xDFFF:
            if errors == 'surrogatepass':
                out.append(bytes([0xE0 | (cp >> 12), 0x80 | ((cp >> 6) & 0x3F), 0x80 | (cp & 0x3F)]))
            elif errors == 'surrogateescape' and 0xDC80 <= cp <= 0xDCFF:
                out.append(bytes([cp - 0xDC00]))
            elif errors == 'ignore':
                pass
            elif errors == 'replace':
                out.append(b'?')
            else:
                raise UnicodeEncodeError('utf-8', s, i, i + 1, 'surrogates not allowed')
        elif cp < 0x10000:
            out.append(bytes([0xE0 | (cp >> 12), 0x80 | ((cp >> 6) & 0x3F), 0x80 | (cp & 0x3F)]))
        else:
            out.append(bytes([0xF0 | (cp >> 18), 0x80 | ((cp >> 12) & 0x3F), 0x80 | ((cp >> 6) & 0x3F), 0x80 | (cp & 0x3F)]))
    return b''.join(out)


def _bad(b, i, n, errors, out):
    """handle the maximal invalid subpart b[i:i+n]; returns the next index"""
    if errors == 'surrogateescape':
        # every byte of the invalid subpart must be >= 0x80 (it is, by construction of the callers)
        for x in b[i:i + n]:
            out.append(chr(0xDC00 + x))
        return i + n
    if errors == 'ignore':
        return i + n
    if errors == 'replace':
        out.append('�')
        return i + n
    raise UnicodeDecodeError('utf-8', bytes(b), i, i + n, 'invalid utf-8')


def utf8_decode(b, errors='strict'):
    if errors not in HANDLERS:
        return bytes(b).decode('utf-8', errors)
    out = []
    i, n = 0, len(b)
    while i < n:
        x = b[i]
        if x < 0x80:
            out.append(chr(x))
            i += 1
            continue
        if x < 0xC2 or x > 0xF4:
            i = _bad(b, i, 1, errors, out)
            continue
        if x < 0xE0:
            need, lo, hi = 1, 0x80, 0xBF
        elif x < 0xF0:
            need = 2
            lo, hi = (0xA0, 0xBF) if x == 0xE0 else ((0x80, 0x9F) if x == 0xED else (0x80, 0xBF))
            if errors == 'surrogatepass' and x == 0xED:
                lo, hi = 0x80, 0xBF
        else:
            need = 3
            lo, hi = (0x90, 0xBF) if x == 0xF0 else ((0x80, 0x8F) if x == 0xF4 else (0x80, 0xBF))
        # maximal subpart rule: consume continuation bytes while they are valid
        j = 1
        ok = True
        while j <= need:
            if i + j >= n:
                ok = False
                break
            y = b[i + j]
            l2, h2 = (lo, hi) if j == 1 else (0x80, 0xBF)
            if not (l2 <= y <= h2):
                ok = False
                break
            j += 1
        if not ok:
            if errors == 'surrogateescape':
                # CPython escapes byte by byte: only the first byte of the invalid sequence, then restarts
                i = _bad(b, i, 1, errors, out)
            else:
                i = _bad(b, i, j, errors, out)
            continue
        if need == 1:
            cp = ((x & 0x1F) << 6) | (b[i + 1] & 0x3F)
        elif need == 2:
            cp = ((x & 0x0F) << 12) | ((b[i + 1] & 0x3F) << 6) | (b[i + 2] & 0x3F)
        else:
            cp = ((x & 0x07) << 18) | ((b[i + 1] & 0x3F) << 12) | ((b[i + 2] & 0x3F) << 6) | (b[i + 3] & 0x3F)
        out.append(chr(cp))
        i += need + 1
    return ''.join(out)


_TESTED = False


def selftest(rounds=3000, seed=7):
    global _TESTED
    if _TESTED:
        return
    rnd = random.Random(seed)
    cps = [0, 0x7F, 0x80, 0x7FF, 0x800, 0xD7FF, 0xD800, 0xDBFF, 0xDC00, 0xDC7F, 0xDC80, 0xDCFF, 0xDD00, 0xDFFF, 0xE000, 0xFFFF, 0x10000, 0x10FFFF, 0xC3, 0xA9, 0x0A, 0x0D]
    for r in range(rounds):
        k = rnd.randint(0, 4)
        s = ''.join(chr(rnd.choice(cps) if rnd.random() < 0.7 else rnd.randint(0, 0x10FFFF)) for _ in range(k))
        bs = bytes(rnd.choice([0, 0x41, 0x7F, 0x80, 0xBF, 0xC0, 0xC2, 0xC3, 0xA9, 0xE0, 0xE2, 0x82, 0xAC, 0xED, 0xA0, 0x9F, 0xF0, 0x90, 0xF4, 0x8F, 0xF5, 0xFF]) if rnd.random() < 0.8
                   else rnd.randint(0, 255) for _ in range(rnd.randint(0, 5)))
        for h in HANDLERS:
            try:
                a = ('ok', s.encode('utf-8', h))
            except UnicodeEncodeError:
                a = ('err', None)
            try:
                m = ('ok', utf8_encode(s, h))
            except UnicodeEncodeError:
                m = ('err', None)
            if a != m:
                raise AssertionError('utf8_encode(%r, %r): codec %r, mine %r' % (s, h, a, m))
            try:
                a = ('ok', bs.decode('utf-8', h))
            except UnicodeDecodeError:
                a = ('err', None)
            try:
                m = ('ok', utf8_decode(bs, h))
            except UnicodeDecodeError:
                m = ('err', None)
            if a != m:
                raise AssertionError('utf8_decode(%r, %r): codec %r, mine %r' % (bs, h, a, m))
    _TESTED = True
