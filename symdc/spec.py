"""Reference semantics (oracles) as formulas over snapshots — DESIGN Appendix A.
Written from the documentation and the property statements; each asserts only the stated direction."""
from . import sx
from .sx import And, Or, Not, Implies, IfI, IfR, EqI, NeI, EqR, NeR, LtR, LeR, SumI, SumR, Count, AndL, OrL, AddR, SubR
from .sqlmodel import Cell, NULL, INT, REAL, TEXT, BLOB, cell_eq, cell_lt, cell_same, ite_cell, CNULL, rank
from .state import Item, Table, same_cols, CACHE_COLS, ALL_BUT_ROWID

POLICY_COL = {'least-recently-stored': 'store_time', 'least-recently-used': 'access_time',
              'least-frequently-used': 'access_count', 'none': None}


def dead(item, now):
    """expiry time strictly passed"""
    e = item.c['expire_time']
    return And(NeI(e.cls, NULL), LtR(e.num, now))


def live(item, now):
    e = item.c['expire_time']
    return Or(EqI(e.cls, NULL), LtR(now, e.num))


def max_rowid(T):
    m = 0
    for it in T.items:
        if it.present is False:
            continue
        m = IfR(And(it.present, LtR(m, it.c['rowid'].num)), it.c['rowid'].num, m)
    return m


def write_with_cull(T0, T1, wkey, wraw, written, now, policy, cull_limit, size_limit, page_bytes):
    """Post-condition of a write (set / add-that-writes / inserting incr / push) followed by the lazy cull.

    W = T0 with the item addressed by (wkey, wraw) replaced by `written` (dict col -> Cell, without rowid),
    or with it appended.  T1 must be W minus a set V of victims with:
      |V| <= cull_limit; every victim is either dead (expire < now) or a policy victim; policy victims only if
      policy != none and volume >= size_limit, only after every dead item is gone, and every policy victim's
      policy key <= every surviving non-dead item's key.
    volume = page_bytes + sum of sizes of W minus dead victims.   Returns [(label, formula)]."""
    out = []
    old = T0.lookup(wkey, wraw)
    W = []
    for it in T0.items:
        if it.present is False:
            continue
        is_w = And(cell_eq(it.c['key'], wkey), cell_eq(it.c['raw'], wraw))
        W.append(Item(And(it.present, Not(is_w)), it.c))
    wi = Item(True, dict(written))
    new = T1.lookup(wkey, wraw)
    # rowid of the written item: kept when replacing, else beyond every existing rowid
    max0 = max_rowid(T0)
    rowid_ok = sx.IfB(old.present, EqR(new.c['rowid'].num, old.c['rowid'].num), LtR(max0, new.c['rowid'].num))
    w_survives = And(new.present, same_cols(new, wi, ALL_BUT_ROWID), rowid_ok)
    w_removed = Not(new.present)
    out.append(('written item as specified (or culled)', Or(w_survives, w_removed)))
    allW = W + [wi]
    removed = []
    for it in W:
        p = T1.lookup(it.c['key'], it.c['raw'])
        kept = And(p.present, same_cols(p, it, CACHE_COLS))
        gone = Not(p.present)
        out.append(('other item unchanged or removed', Implies(it.present, Or(kept, gone))))
        removed.append(And(it.present, gone))
    removed.append(w_removed)
    nrem = Count(removed)
    out.append(('at most cull_limit removed', sx.LeI(nrem, cull_limit)))
    out.append(('no spurious rows', EqI(T1.count(), sx.SubI(Count(it.present for it in allW), nrem))))
    deads = [And(it.present, dead(it, now)) for it in allW]
    pol_victim = [And(r, Not(d)) for r, d in zip(removed, deads)]
    any_pol = OrL(pol_victim)
    pcol = POLICY_COL[policy]
    if pcol is None:
        out.append(('policy none never evicts', Not(any_pol)))
    else:
        dead_removed_size = SumR(IfR(And(r, d), it.c['size'].num, 0) for it, r, d in zip(allW, removed, deads))
        total = SumR(IfR(it.present, it.c['size'].num, 0) for it in allW)
        volume = SubR(AddR(page_bytes, total), dead_removed_size)
        out.append(('eviction only at the size limit', Implies(any_pol, LeR(size_limit, volume))))
        out.append(('dead items go first', Implies(any_pol, AndL(Implies(d, r) for d, r in zip(deads, removed)))))
        order = []
        for v, pv in zip(allW, pol_victim):
            if pv is False:
                continue
            for s, rs, ds in zip(allW, removed, deads):
                if v is s:
                    continue
                surv = And(s.present, Not(rs), Not(ds))
                order.append(Implies(And(pv, surv), LeR(v.c[pcol].num, s.c[pcol].num)))
        out.append(('policy order', AndL(order)))
    return out


def unchanged(T0, T1, cols=CACHE_COLS, except_key=None):
    """every item of T0 is in T1 with identical columns and nothing else is there"""
    conj = []
    for it in T0.items:
        if it.present is False:
            continue
        p = T1.lookup(it.c['key'], it.c['raw'])
        c = Implies(it.present, And(p.present, same_cols(p, it, cols)))
        if except_key is not None:
            k, r = except_key
            c = Or(And(cell_eq(it.c['key'], k), cell_eq(it.c['raw'], r)), c)
        conj.append(c)
    return AndL(conj)


def same_count(T0, T1):
    return EqI(T0.count(), T1.count())
