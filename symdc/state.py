"""Symbolic / concrete cache states: row specifications, installation into a backend, snapshots and
the representation invariant Inv (DESIGN §3.4).  Everything here works on both backends: on the
model backend cells are z3 terms over the obligation's input variables, on the real backend the
same terms are ground."""
import z3
from fractions import Fraction

from . import zpath, sqlmodel, sx
from .sx import And, Or, Not, Implies, IfI, IfR, EqI, NeI, EqR, NeR, LtR, LeR, SumI, SumR, Count, AndL, OrL, simp, isz, zB, zR
from .zpath import I, R, B, Ctx, assume
from .sqlmodel import Cell, Row, NULL, INT, REAL, TEXT, BLOB, cell_eq, cell_lt, cell_same, ite_cell, CNULL, iv, rank

CACHE_COLS = ['rowid', 'key', 'raw', 'store_time', 'expire_time', 'access_time', 'access_count', 'tag', 'size',
              'mode', 'filename', 'value']
ZT, ZF = True, False
zsum = SumI
zcount = Count
zand = AndL
zor = OrL


class Item:
    """one entry of a snapshot: presence flag + column cells"""
    __slots__ = ('present', 'c')

    def __init__(self, present, cells):
        self.present = present
        self.c = cells


class Table:
    """snapshot of the Cache table + Settings counters (+ file listing on request)"""

    def __init__(self, items, settings):
        self.items = items  # list[Item]
        self.settings = settings  # name -> Cell

    def lookup(self, key, raw):
        """merged item addressed by (key, raw) under SQL equality"""
        res = Item(ZF, {c: CNULL for c in CACHE_COLS})
        for it in self.items:
            c = simp(And(it.present, cell_eq(it.c['key'], key), cell_eq(it.c['raw'], raw)))
            if c is False:
                continue
            res = Item(Or(res.present, c), {k: ite_cell(c, it.c[k], res.c[k]) for k in CACHE_COLS})
        return res

    def lookup_rowid(self, rowid):
        res = Item(ZF, {c: CNULL for c in CACHE_COLS})
        for it in self.items:
            c = simp(And(it.present, EqR(it.c['rowid'].num, rowid.num)))
            if c is False:
                continue
            res = Item(Or(res.present, c), {k: ite_cell(c, it.c[k], res.c[k]) for k in CACHE_COLS})
        return res

    def count(self):
        return zcount(it.present for it in self.items)

    def total_size(self):
        return SumR(IfR(it.present, it.c['size'].num, 0) for it in self.items)

    def setting_int(self, name):
        return sx.ToInt(self.settings[name].num)


def same_cols(a, b, cols):
    return zand(cell_same(a.c[k], b.c[k]) for k in cols)


ALL_BUT_ROWID = [c for c in CACHE_COLS if c != 'rowid']


# ------------------------------------------------------------------ row specs

class Nullable:
    """(isnull, cell) pair: a nullable column of the symbolic pre-state"""

    def __init__(self, isnull, cell):
        self.isnull = isnull
        self.cell = cell


def to_cell(con_bind, v):
    if isinstance(v, Cell):
        return v
    if isinstance(v, Nullable):
        n = sx._fold(v.isnull.z) if isinstance(v.isnull, B) else v.isnull
        c = to_cell(con_bind, v.cell)
        return Cell(IfI(n, NULL, c.cls), IfR(n, 0, c.num))
    return con_bind(v)


REAL_COLS = ('store_time', 'expire_time', 'access_time')


def install_model(world, cache, rowspecs, hits=0, misses=0):
    """install symbolic rows into the model database behind `cache` (Settings counters made consistent)"""
    con = cache._con
    db = con.db
    st = db.committed
    rows = st.tables['Cache']
    for i, spec in enumerate(rowspecs):
        cells = {}
        for col in CACHE_COLS:
            c = to_cell(con.bind, spec.get(col))
            if col in REAL_COLS:
                c = con.affinity('Cache', col, c)
            cells[col] = c
        alive = spec.get('_alive', True)
        alive = sx._fold(alive.z) if isinstance(alive, B) else alive
        tb = spec.get('_tb', 0)
        tb = tb.z if isinstance(tb, (R, I)) else tb
        rows.append(Row(cells, alive, tb))
    cnt = zcount(r.alive for r in rows)
    size = SumR(IfR(r.alive, r.c['size'].num, 0) for r in rows)
    for r in st.tables['Settings']:
        k = db.intern.lookup(TEXT, sqlmodel.frac_of(r.c['key'].num))
        if k == 'count':
            r.c['value'] = Cell(INT, cnt)
        elif k == 'size':
            r.c['value'] = Cell(INT, size)
        elif k == 'hits':
            r.c['value'] = con.bind(hits)
        elif k == 'misses':
            r.c['value'] = con.bind(misses)


def snapshot_model(world, cache, committed=True):
    con = cache._con
    db = con.db
    st = db.committed if committed or db.txn_state is None else db.txn_state
    items = [Item(r.alive, dict(r.c)) for r in st.tables['Cache']]
    settings = {}
    for r in st.tables['Settings']:
        if simp(r.alive) is True:
            k = db.intern.lookup(TEXT, sqlmodel.frac_of(r.c['key'].num))
            settings[k] = r.c['value']
    return Table(items, settings)


# ------------------------------------------------------------------ Inv

def inv_table(T, files=None):
    """bookkeeping part of Inv over a snapshot: distinct positive rowids, distinct (key, raw),
    Settings.count / size consistent, inline rows have size 0 and no filename"""
    its = [it for it in T.items if it.present is not False]
    conj = []
    for i, a in enumerate(its):
        conj.append(Implies(a.present, And(EqI(a.c['rowid'].cls, INT), LtR(0, a.c['rowid'].num))))
        conj.append(Implies(a.present, And(EqI(a.c['size'].cls, INT), LeR(0, a.c['size'].num))))
        conj.append(Implies(And(a.present, EqI(a.c['filename'].cls, NULL)), EqR(a.c['size'].num, 0)))
        conj.append(Implies(a.present, Or(EqI(a.c['filename'].cls, NULL), EqI(a.c['filename'].cls, TEXT))))
        for b in its[i + 1:]:
            both = And(a.present, b.present)
            conj.append(Implies(both, NeR(a.c['rowid'].num, b.c['rowid'].num)))
            conj.append(Implies(both, Not(And(cell_eq(a.c['key'], b.c['key']), cell_eq(a.c['raw'], b.c['raw'])))))
            conj.append(Implies(And(both, EqI(a.c['filename'].cls, TEXT), EqI(b.c['filename'].cls, TEXT)),
                                NeR(a.c['filename'].num, b.c['filename'].num)))
    conj.append(EqI(T.settings['count'].cls, INT))
    conj.append(EqR(T.settings['count'].num, T.count()))
    conj.append(EqI(T.settings['size'].cls, INT))
    conj.append(EqR(T.settings['size'].num, T.total_size()))
    return zand(conj)
