"""Obligation registry: which obligations decide which property at which tier; pre-flight guards;
evidence assembly."""
import importlib
import os
import time

MODULES = ['obligations.cache_ops']

PROP_MODULES = {
    'C03': ['obligations.cache_ops', 'obligations.e2_jobs'],
    'C04': ['obligations.cache_ops'],
    'C08': ['obligations.cache_ops'],
    'C09': ['obligations.cache_ops', 'obligations.fanout_ops'],
    'C10': ['obligations.queue_ops', 'obligations.e2_jobs', 'obligations.persist_ops', 'obligations.block_ops'],
    'C01': ['obligations.e2_jobs', 'obligations.cache_ops', 'obligations.queue_ops'],
    'C02': ['obligations.e2_jobs', 'obligations.cache_ops'],
    'C13': ['obligations.e2_jobs', 'obligations.fanout_ops', 'obligations.persistence_ops'],
    'C06': ['obligations.block_ops', 'obligations.persist_ops'],
    'C18': ['obligations.e2_jobs', 'obligations.persistence_ops', 'obligations.fanout_ops'],
    'C15': ['obligations.recipes_ops'],
    'C20': ['obligations.recipes_ops'],
    'C19': ['obligations.django_ops'],
    'C17': ['obligations.check_ops', 'obligations.fanout_ops'],
    'C11': ['obligations.persist_ops', 'obligations.fanout_ops'],
    'C12': ['obligations.persist_ops', 'obligations.persistence_ops', 'obligations.fanout_ops'],
    'C05': ['obligations.conc_ops', 'obligations.block_ops', 'obligations.cache_ops', 'obligations.persist_ops', 'obligations.recipes_ops', 'obligations.persistence_ops'],
    'C07': ['obligations.cache_ops', 'obligations.queue_ops', 'obligations.persist_ops', 'obligations.block_ops', 'obligations.persistence_ops'],
    'C14': ['obligations.cache_ops', 'obligations.queue_ops', 'obligations.fanout_ops', 'obligations.block_ops', 'obligations.django_ops'],
    'C16': ['obligations.e2_jobs', 'obligations.memo_ops'],
}
for _p in ('C04', 'C08'):
    PROP_MODULES[_p] = PROP_MODULES[_p] + ['obligations.queue_ops']
PROP_MODULES['C04'] = PROP_MODULES['C04'] + ['obligations.conc_ops']
PROP_MODULES['C08'] = PROP_MODULES['C08'] + ['obligations.block_ops', 'obligations.e2_jobs', 'obligations.persist_ops', 'obligations.conc_ops']


ALL_MODULES = sorted({m for v in PROP_MODULES.values() for m in v})


def jobs_for(prop, tier):
    """every obligation of every module that carries the property's tag (PROP_MODULES is only the historical grouping: an obligation written
    for one property but tagged for another must run for both)"""
    out = []
    seen = set()
    for m in ALL_MODULES:
        mod = importlib.import_module(m)
        for j in mod.jobs(tier):
            if prop in j['tags'] and j['id'] not in seen:
                seen.add(j['id'])
                j = dict(j)
                j.setdefault('module', m)
                j.setdefault('engine', 'E1')
                if j['engine'] != 'E1':
                    j['twin'] = False
                j.setdefault('budget_s', 600 if tier == 'quick' else 2400)
                j.setdefault('twin', True)
                out.append(j)
    return out


_PRE = {}


def preflight(prop, tier):
    """guards shared by all table-level checks: cuts applied, every SQL string of the tree parses,
    differential validation of the SQL / FS models against the real components"""
    from symdc import loader, sqlparse
    res = {'errors': [], 'inconclusive': [], 'info': {}}
    L = loader.load()
    if L.cuts_missing:
        res['inconclusive'].append('page/batch-size cut positions not found: %s (paging clauses cannot be reached)' % L.cuts_missing)
    res['info']['cuts'] = [list(c) for c in L.cuts]
    bad = []
    stmts = loader.sql_strings(L.sources['core'])
    for s in stmts:
        t = s
        for a, b in (('%s', 'x'), ('{fields}', 'x'), ('{now}', '1')):
            t = t.replace(a, b)
        try:
            sqlparse.parse(t)
        except sqlparse.Unsupported as e:
            # fragments (e.g. 'SELECT %s FROM Cache' pieces) are joined at run time; only whole statements count
            if t.strip().endswith(')') or ' FROM ' in t or t.split()[0] in ('BEGIN', 'COMMIT', 'ROLLBACK', 'VACUUM'):
                bad.append('%s (%s)' % (s[:70], e))
    res['info']['sql_strings_in_source'] = len(stmts)
    res['info']['sql_strings_unparsed'] = bad
    res['info']['function_hashes'] = L.hashes
    return res


LEVEL_NOTE = ('bounded symbolic execution of the real method bodies (engine E1 zpath: z3-decided path exploration by re-execution) '
              'against a relational/file-system/clock model; every claim is "holds for all values within the stated bounds"')


def evidence(prop, tier, seed, results, pre, known, violations, inconclusive, errors, wall):
    n = len(results)
    holds = sum(1 for r in results if r['status'] == 'holds')
    paths = sum(r.get('stats', {}).get('paths', 0) for r in results)
    nontrivial = sum(r.get('nontrivial', 0) for r in results)
    feas = sum(r.get('stats', {}).get('feas_queries', 0) for r in results)
    verd = sum(r.get('stats', {}).get('verdict_queries', 0) for r in results)
    solver_s = sum(r.get('stats', {}).get('solver_s', 0.0) for r in results)
    obl = []
    funcs = set()
    samples = []
    for r in sorted(results, key=lambda r: r['job']['id']):
        j = r['job']
        obl.append({'id': j['id'], 'engine': j.get('engine'), 'status': r['status'], 'bounds': j.get('params'),
                    'paths': r.get('stats', {}).get('paths'), 'feasibility_queries': r.get('stats', {}).get('feas_queries'),
                    'verdict_queries': r.get('stats', {}).get('verdict_queries'), 'solver_s': round(r.get('stats', {}).get('solver_s', 0.0), 3),
                    'wall_s': round(r.get('wall', 0.0), 2), 'flags_reached': r.get('flags'), 'twin': r.get('twin'),
                    'excluded_known_findings': j.get('exclude'), 'detail': r.get('detail') or None})
        for f in j.get('functions', []):
            funcs.add(f)
        for s in (r.get('samples') or [])[:1]:
            samples.append({'obligation': j['id'], 'sample': s})
        if r['status'] == 'cex' and r.get('cex'):
            samples.append({'obligation': j['id'], 'counterexample': r['cex']['values'], 'failed_clauses': r['cex']['failed_clauses'],
                            'replay': r.get('replay')})
    hashes = pre['info'].get('function_hashes', {})
    fe = sorted(funcs)
    if not samples:
        samples = [{'obligation': o['id'], 'bounds': o['bounds'], 'paths': o['paths']} for o in obl[:3]]
    ev = {
        'property_id': prop, 'tier': tier, 'seed': seed, 'level': 'other', 'wall_s': round(wall, 2),
        'violations': len(violations),
        'coverage': {
            'explanation': LEVEL_NOTE + '. Deciding step: z3 verdict query "path-condition AND NOT oracle" per path (unsat = holds); '
                           'bounds are listed per obligation; counterexamples are replayed on real sqlite3+files before being reported.',
            'obligations': n, 'discharged': holds,
            'evaluations': paths, 'distinct_nontrivial': nontrivial,
            'rule': 'one evaluation = one feasible symbolic path of an obligation (a z3-satisfiable path condition over the symbolic '
                    'pre-state/arguments/clock); non-trivial = the path reached the oracle with the scenario installed; paths are distinct '
                    'by construction (differ in at least one branch decision)',
            'samples': samples[:12],
            'exhaustive': False,
            'queries_discharged': {'feasibility': feas, 'verdict': verd}, 'solver_seconds': round(solver_s, 2),
            'cvc5_cross_check': {k: sum(r.get('stats', {}).get(k, 0) for r in results) for k in ('xchecked', 'xcheck_agree', 'xcheck_disagree', 'xcheck_unknown', 'xcheck_errors')},
            'per_obligation': obl,
            'functions_encoded': {f: hashes.get(f) for f in fe},
            'cuts': pre['info'].get('cuts'),
            'sql_statements_in_source': pre['info'].get('sql_strings_in_source'),
            'model_validation': pre['info'].get('model_validation'),
            'known_findings': [{'id': f['id'], 'what': f['what'], 'witness_still_fails': f.get('_still_fails')} for f in known],
            'inconclusive': inconclusive, 'harness_errors': errors,
            'checker_cmd': './run %s %s' % (prop, tier),
            'trusted_base': ['z3 4.x (z3-solver wheel)', 'symdc SQL/FS/clock models (differentially validated against sqlite3 on every run)',
                             'SQLite WAL locking/atomic-commit contract (assumed)', 'CPython'],
        },
        'assumptions': [
            'times (clock readings, ttl) range over integers of arbitrary magnitude (discrete clock; IEEE rounding outside the claim)',
            'table size <= N rows as listed per obligation; one call per obligation from an arbitrary state satisfying Inv (inductive step)',
            'SQL semantics as modelled in symdc/sqlmodel.py (three-valued logic, storage-class order, affinity, triggers interpreted from the DDL)',
            'page-size / batch-size literals cut to PAGE/BATCH (code is parametric in them)',
            '128-bit random file names do not collide',
        ],
    }
    return ev
