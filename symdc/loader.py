"""Loads the diskcache modules from the tree under test (VERIF_REPO, default /repo) as a private
package, applying the documented cuts on the AST, and records source hashes of every function."""
import ast
import hashlib
import os
import sys
import types

REPO = os.environ.get('VERIF_REPO', '/repo')
MODULES = ['core', 'persistent', 'fanout', 'recipes', 'djangocache']

SELECT_DELETE_CALLERS = {'evict', 'expire', 'clear'}
LIMIT_FUNCS = {'iterkeys', '_iter'}


class Cutter(ast.NodeTransformer):
    """page-size / batch-size literals -> module globals _VERIF_PAGE / _VERIF_BATCH.
    A cut addresses a syntactic position, not the value."""

    def __init__(self):
        self.fn = []
        self.applied = []
        self.expected = {('evict', 'args'), ('expire', 'args'), ('clear', 'args'), ('iterkeys', 'limit'),
                         ('_iter', 'limit'), ('cull', 'batch')}

    def visit_FunctionDef(self, node):
        self.fn.append(node.name)
        self.generic_visit(node)
        self.fn.pop()
        return node

    def visit_Assign(self, node):
        self.generic_visit(node)
        if not self.fn:
            return node
        fn = self.fn[-1]
        if len(node.targets) == 1 and isinstance(node.targets[0], ast.Name):
            tgt = node.targets[0].id
            if fn in SELECT_DELETE_CALLERS and tgt == 'args' and isinstance(node.value, ast.List) and node.value.elts:
                last = node.value.elts[-1]
                if isinstance(last, ast.Constant) and type(last.value) is int:
                    node.value.elts[-1] = ast.copy_location(ast.Name(id='_VERIF_PAGE', ctx=ast.Load()), last)
                    self.applied.append((fn, 'args', last.value))
            if fn in LIMIT_FUNCS and tgt == 'limit' and isinstance(node.value, ast.Constant) and type(node.value.value) is int:
                self.applied.append((fn, 'limit', node.value.value))
                node.value = ast.copy_location(ast.Name(id='_VERIF_PAGE', ctx=ast.Load()), node.value)
        return node

    def visit_Tuple(self, node):
        self.generic_visit(node)
        if self.fn and self.fn[-1] == 'cull' and len(node.elts) == 1:
            e = node.elts[0]
            if isinstance(e, ast.Constant) and type(e.value) is int:
                node.elts[0] = ast.copy_location(ast.Name(id='_VERIF_BATCH', ctx=ast.Load()), e)
                self.applied.append(('cull', 'batch', e.value))
        return node


class Loaded:
    pass


def function_hashes(src, tree):
    out = {}

    def walk(node, prefix):
        for ch in ast.iter_child_nodes(node):
            if isinstance(ch, (ast.FunctionDef, ast.AsyncFunctionDef, ast.ClassDef)):
                q = prefix + ch.name
                if not isinstance(ch, ast.ClassDef):
                    seg = ast.get_source_segment(src, ch) or ''
                    out[q] = hashlib.sha256(seg.encode()).hexdigest()[:16]
                walk(ch, q + '.')
    walk(tree, '')
    return out


def load(repo=None, cut=True, pkgname='dcsym', modules=MODULES):
    """returns a Loaded namespace with .core, .persistent, ... freshly executed modules"""
    repo = repo or REPO
    L = Loaded()
    L.repo = repo
    L.hashes = {}
    L.cuts = []
    L.cuts_missing = []
    L.sources = {}
    pkg = types.ModuleType(pkgname)
    pkg.__path__ = []
    sys.modules[pkgname] = pkg
    for name in modules:
        path = os.path.join(repo, 'diskcache', name + '.py')
        src = open(path).read()
        tree = ast.parse(src, path)
        for q, h in function_hashes(src, tree).items():
            L.hashes['%s.%s' % (name, q)] = h
        L.sources[name] = src
        if cut and name == 'core':
            c = Cutter()
            tree = c.visit(tree)
            ast.fix_missing_locations(tree)
            L.cuts = c.applied
            got = {(f, k) for f, k, _ in c.applied}
            L.cuts_missing = sorted(c.expected - got)
        mod = types.ModuleType('%s.%s' % (pkgname, name))
        mod.__package__ = pkgname
        mod.__file__ = path
        mod.__dict__['_VERIF_PAGE'] = 100
        mod.__dict__['_VERIF_BATCH'] = 10
        sys.modules[mod.__name__] = mod
        try:
            exec(compile(tree, path, 'exec'), mod.__dict__)
        except ImportError as e:
            if name == 'djangocache':
                L.djangocache = None
                L.django_error = str(e)
                continue
            raise
        setattr(pkg, name, mod)
        setattr(L, name, mod)
    return L


def sql_strings(src):
    """all string constants in the source that look like SQL (for the parse-coverage obligation)"""
    out = []
    tree = ast.parse(src)
    for node in ast.walk(tree):
        if isinstance(node, ast.Constant) and isinstance(node.value, str):
            s = node.value.strip()
            if s.split(' ')[0] in ('SELECT', 'INSERT', 'UPDATE', 'DELETE', 'CREATE', 'DROP', 'PRAGMA', 'BEGIN', 'COMMIT', 'ROLLBACK', 'VACUUM'):
                out.append(node.value)
    return out
