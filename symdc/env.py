"""World: the environment behind the seams of the loaded diskcache modules (model backend).

Every call that crosses the boundary (SQL statement, file-system call, sleep) is an *event*.
Directives (crash / fault / interference / busy lock) are consulted before each event.
"""
import copy
import io as _real_io
import os as _real_os
import posixpath
import sqlite3 as _real_sqlite3
import types
import z3

from . import zpath, sqlmodel, sx
from .zpath import I, R, B, Ctx, PathEnd, assume
from .sqlmodel import ModelDB, Connection, Cell, Row


class Crash(BaseException):
    """the process died (SIGKILL) — nothing after this point has any effect"""


class WouldBlock(Exception):
    """soft mode: the caller would wait (lock busy / sleeping) -- reported to the obligation instead of aborting the path"""


class Spin(PathEnd):
    """a retry loop exceeded its modelled bound (legal prefix: still waiting)"""


class MFile:
    __slots__ = ('content', 'size', 'complete', 'text', 'exists')

    def __init__(self, content=b'', size=0, complete=True, text=False, exists=True):
        self.content, self.size, self.complete, self.text, self.exists = content, size, complete, text, exists

    def copy(self):
        return MFile(self.content, self.size, self.complete, self.text, self.exists)


def det_urandom(w, n):
    """deterministic, distinct per call; with w.urandom_prefix the leading bytes (= the sub-directory Disk.filename picks) are fixed"""
    w.urandom_ctr = getattr(w, 'urandom_ctr', 0) + 1
    out = bytes([(w.urandom_ctr * 17 + i) % 256 for i in range(n)])
    pre = getattr(w, 'urandom_prefix', None)
    if pre:
        out = (pre + out[len(pre):])[:n]
    return out


def _np(path):
    """the file-system object a path string names: separators collapsed, '.' components and a trailing separator dropped (the
    spelling a caller used is kept in what is handed back to it, e.g. by walk)"""
    if isinstance(path, str) and path:
        return posixpath.normpath(path)
    return path


class ModelFS:
    def __init__(self, world):
        self.w = world
        self.files = {}
        self.dirs = set()

    def copy_state(self):
        return ({k: v.copy() for k, v in self.files.items()}, set(self.dirs))

    def add_dir(self, d):
        d = _np(d)
        while d and d != '/':
            self.dirs.add(d)
            d = posixpath.dirname(d)

    def add_file(self, path, content=b'', size=None, complete=True, exists=True):
        path = _np(path)
        self.add_dir(posixpath.dirname(path))
        self.files[path] = MFile(content, len(content) if size is None else size, complete, False, exists)

    def has(self, path):
        f = self.files.get(_np(path))
        if f is None:
            return False
        e = f.exists
        if e is True or e is False:
            return e
        if bool(B(e)):
            return True
        return False

    def exists_z(self, path):
        """z3 Bool: the file exists (and is complete)"""
        f = self.files.get(_np(path))
        if f is None:
            return False
        return f.exists

    def listdir(self, d):
        d = _np(d)
        fs = sorted(p[len(d) + 1:] for p in list(self.files) if posixpath.dirname(p) == d and self.has(p))
        ds = sorted(p[len(d) + 1:] for p in self.dirs if posixpath.dirname(p) == d)
        return ds, fs

    # ---- merged operations on symbolic paths
    def _cands(self, sp):
        """[(cond, path, file)]: cond = `sp` names this file"""
        from .sx import And, EqR, NeI
        out = []
        nn = sp.name.notnull()
        intern = sp.name.db.intern
        spdir = _np(sp.dir)
        for p, f in self.files.items():
            if not p.startswith(spdir + '/') or f.exists is False:
                continue
            fid = intern.intern(sqlmodel.TEXT, p[len(spdir) + 1:])
            c = sx.simp(And(nn, EqR(sp.name.cell.num, fid)))
            if c is not False:
                out.append((c, p, f, fid))
        return out

    def _sym_found(self, sp):
        from .sx import And, OrL
        return OrL(And(c, f.exists) for c, p, f, fid in self._cands(sp))

    def _sym_remove(self, sp):
        from .sx import And, Not
        for c, p, f, fid in self._cands(sp):
            f.exists = sx.simp(And(f.exists, Not(c)))

    # ---- seams
    def open(self, path, mode='r', buffering=-1, encoding=None, errors=None, newline=None):
        if isinstance(path, SymPath) and 'r' in mode:
            n_ = sx.simp(path.name.cell.num)
            if not sx.isz(n_) and sx.simp(path.name.cell.cls) == sqlmodel.TEXT:
                # a ground name: the very file (its bytes are needed e.g. to unpickle a file-backed value)
                cpath = _np(posixpath.join(path.dir, path.name.db.intern.lookup(sqlmodel.TEXT, n_)))
                f_ = self.files.get(cpath)
                if f_ is not None and (f_.exists is True or f_.exists is False) and not isinstance(f_.content, SymContent):
                    path = cpath
        if isinstance(path, SymPath):
            self.w.event('fs', 'open:%s:<sym>' % mode)
            if 'r' not in mode:
                raise sqlmodel.Unsupported('writing to a symbolic path')
            if not B(sx.zB(self._sym_found(path))):
                raise FileNotFoundError(2, 'No such file or directory')
            cid = path.name.cell.num
            f = MFile(SymContent(cid), 0, True)
            return Reader(self, '<sym>', f, False, None, None)
        path = _np(_fspath(path))
        self.w.event('fs', 'open:%s:%s' % (mode, path))
        if 'x' in mode or 'w' in mode:
            if 'x' in mode and self.has(path):
                raise FileExistsError(17, 'File exists', path)
            if posixpath.dirname(path) not in self.dirs:
                raise FileNotFoundError(2, 'No such file or directory', path)
            f = MFile(b'', 0, False, 'b' not in mode)
            self.files[path] = f
            return Writer(self, path, f, 'b' not in mode, encoding, newline)
        if not self.has(path):
            raise FileNotFoundError(2, 'No such file or directory', path)
        return Reader(self, path, self.files[path], 'b' not in mode, encoding, newline)

    def makedirs(self, d, mode=0o777, exist_ok=False):
        self.w.event('fs', 'makedirs:%s' % d)
        d = _np(d)
        if d in self.dirs:
            if exist_ok:
                return
            raise FileExistsError(17, 'File exists', d)
        self.add_dir(d)

    def remove(self, path):
        if isinstance(path, SymPath):
            if not bool(B(sx.zB(path.name.notnull()))):
                # the code under test guards the removal with `filename is not None`; a symbolic name is never None, so the guard
                # is decided here (fork) and a NULL name counts no event -- event numbers stay those of the real run
                return
            self.w.event('fs', 'remove:<sym>')
            self._sym_remove(path)
            return
        self.w.event('fs', 'remove:%s' % path)
        if not self.has(path):
            raise FileNotFoundError(2, 'No such file or directory', path)
        del self.files[_np(path)]

    def rmdir(self, d):
        self.w.event('fs', 'rmdir:%s' % d)
        self._rmdir(d)

    def _rmdir(self, d):
        d = _np(d)
        if d not in self.dirs:
            raise FileNotFoundError(2, 'No such file or directory', d)
        ds, fs = self.listdir(d)
        if ds or fs:
            raise OSError(39, 'Directory not empty', d)
        self.dirs.discard(d)

    def removedirs(self, d):
        if isinstance(d, SymDir):
            # directories of symbolically named files are not tracked (an empty directory is harmless debris)
            if isinstance(d.path, SymPath) and not bool(B(sx.zB(d.path.name.notnull()))):
                return
            self.w.event('fs', 'removedirs:<sym>')
            if isinstance(d.path, SymPath):
                n = sx.simp(d.path.name.cell.num)
                if not sx.isz(n) and sx.simp(d.path.name.cell.cls) == sqlmodel.TEXT:
                    # a ground name (differential validation, concrete replays): prune emptied directories like the real call
                    head = posixpath.dirname(_np(posixpath.join(d.path.dir, d.path.name.db.intern.lookup(sqlmodel.TEXT, n))))
                    while head and head != '/' and head != _np(d.path.dir):
                        try:
                            self._rmdir(head)
                        except OSError:
                            break
                        head = posixpath.dirname(head)
            return
        self.w.event('fs', 'removedirs:%s' % d)
        d = _np(d)
        self._rmdir(d)
        head = posixpath.dirname(d)
        while head and head != '/':
            try:
                self._rmdir(head)
            except OSError:
                break
            head = posixpath.dirname(head)

    def walk(self, top, topdown=True, onerror=None, followlinks=False):
        # one event per os.walk call (as counted on the real stack), not one per directory visited
        self.w.event('fs', 'scandir:%s' % top)
        return self._walk(top, topdown)

    def _walk(self, top, topdown):
        if _np(top) not in self.dirs:
            return
        ds, fs = self.listdir(top)
        if topdown:
            yield top, ds, fs
            for d in ds:
                yield from self._walk(posixpath.join(top, d), topdown)
        else:
            for d in ds:
                yield from self._walk(posixpath.join(top, d), topdown)
            yield top, ds, fs

    def os_listdir(self, d):
        self.w.event('fs', 'listdir:%s' % d)
        if _np(d) not in self.dirs:
            raise FileNotFoundError(2, 'No such file or directory', d)
        ds, fs = self.listdir(d)
        return ds + fs

    def getsize(self, path):
        if isinstance(path, SymPath):
            self.w.event('fs', 'stat:<sym>')
            if not B(sx.zB(self._sym_found(path))):
                raise FileNotFoundError(2, 'No such file or directory')
            size = 0
            for c, p, f, fid in self._cands(path):
                sz = f.size.z if isinstance(f.size, I) else f.size
                size = sx.IfI(c, sz, size)
            return I(size) if sx.isz(size) else size
        self.w.event('fs', 'stat:%s' % path)
        if self.has(path):
            return self.files[_np(path)].size
        if _np(path) in self.dirs:
            return 4096
        raise FileNotFoundError(2, 'No such file or directory', path)

    def exists(self, path):
        if isinstance(path, SymPath):
            self.w.event('fs', 'stat:<sym>')
            return bool(B(sx.zB(self._sym_found(path))))
        self.w.event('fs', 'stat:%s' % path)
        return self.has(path) or _np(path) in self.dirs

    def isdir(self, path):
        return _np(path) in self.dirs


def _fspath(p):
    return p if isinstance(p, str) else _real_os.fspath(p)


class SymPath:
    """directory + symbolic relative name (sqlmodel.SymStr)"""
    __slots__ = ('dir', 'name')

    def __init__(self, d, name):
        self.dir, self.name = d, name

    def __fspath__(self):
        return posixpath.join(self.dir, self.name.realise())

    __hash__ = None


class SymDir:
    __slots__ = ('path',)

    def __init__(self, path):
        self.path = path


class SymContent:
    """content of a model file whose identity is symbolic: cid = id of the file's name"""
    __slots__ = ('cid',)

    def __init__(self, cid):
        self.cid = cid

    __hash__ = None


def _join(a, *rest):
    if rest and isinstance(rest[-1], sqlmodel.SymStr):
        return SymPath(posixpath.join(a, *rest[:-1]), rest[-1])
    return posixpath.join(a, *rest)


def _split(p):
    if isinstance(p, SymPath):
        return SymDir(p), p.name
    return posixpath.split(p)


class Writer:
    def __init__(self, fs, path, f, text, encoding, newline):
        self.fs, self.path, self.f, self.text, self.encoding, self.newline = fs, path, f, text, encoding, newline
        self.closed = False

    def write(self, chunk):
        self.fs.w.event('fs', 'write:%s' % self.path)
        if self.text:
            if not isinstance(chunk, str):
                raise TypeError('write() argument must be str')
            if self.newline in (None,):
                chunk = chunk.replace('\n', _real_os.linesep)
            elif self.newline not in ('', '\n'):
                chunk = chunk.replace('\n', self.newline)
            data = chunk.encode(self.encoding or 'utf-8')  # may raise UnicodeEncodeError
        else:
            data = bytes(chunk)
        self.f.content = self.f.content + data
        self.f.size = self.f.size + len(data)
        return len(chunk)

    def close(self):
        if not self.closed:
            self.closed = True
            self.fs.w.event('fs', 'close:%s' % self.path)
            self.f.complete = True

    def __enter__(self):
        return self

    def __exit__(self, *a):
        self.close()
        return False


class Reader:
    def __init__(self, fs, path, f, text, encoding, newline):
        self.fs, self.path, self.f, self.text, self.encoding, self.newline = fs, path, f, text, encoding, newline
        self.pos = 0
        self.closed = False
        self.name = path

    def _all(self):
        data = self.f.content
        if self.text and isinstance(data, bytes):
            s = data.decode(self.encoding or 'utf-8')
            if self.newline is None:
                s = s.replace('\r\n', '\n').replace('\r', '\n')
            return s
        return data

    def _ev(self):
        if not getattr(self, '_read_seen', False):  # one event per file object, however the reader chunks it
            self._read_seen = True
            self.fs.w.event('fs', 'read:%s' % self.path)

    def readline(self, n=-1):
        self._ev()
        data = self._all()
        if isinstance(data, SymContent):
            raise sqlmodel.Unsupported('readline on symbolic file content')
        nl = '\n' if isinstance(data, str) else b'\n'
        j = data.find(nl, self.pos)
        end = len(data) if j < 0 else j + 1
        r = data[self.pos:end]
        self.pos = end
        return r

    def read(self, n=-1):
        self._ev()
        if isinstance(self.f.content, SymContent):
            return self.f.content
        data = self._all()
        if n is None or n < 0:
            r = data[self.pos:] if self.pos else data
            self.pos = len(data) if hasattr(data, '__len__') else 0
            return r
        r = data[self.pos:self.pos + n]
        self.pos += len(r)
        return r

    def close(self):
        self.closed = True

    def __enter__(self):
        return self

    def __exit__(self, *a):
        self.close()
        return False


class Local:
    """threading.local keyed by the world's current thread identity"""

    def __init__(self, world):
        object.__setattr__(self, '_w', world)
        object.__setattr__(self, '_d', {})

    def _cur(self):
        return self._d.setdefault(self._w.tid, {})

    def __getattr__(self, k):
        try:
            return self._cur()[k]
        except KeyError:
            raise AttributeError(k)

    def __setattr__(self, k, v):
        self._cur()[k] = v

    def __delattr__(self, k):
        try:
            del self._cur()[k]
        except KeyError:
            raise AttributeError(k)


class Interleaver:
    """two calls that are both suspended part-way (not well-nested): client A runs up to its event `a_at`, client B then runs
    up to its event `b_at`, A resumes and runs to its end, B resumes and finishes.  A client that meets the write lock held
    by the suspended other one lets the other one finish first (it blocks, as it would in SQLite).  Each client is an OS
    thread; exactly one runs at a time (strict hand-over), so execution is deterministic and can be re-executed."""

    def __init__(self, w, a_at, b_at, ids):
        import threading as _th
        self.w, self.a_at, self.b_at, self.ids = w, a_at, b_at, ids
        self.n = {'A': 0, 'B': 0}
        self.cur = 'A'
        self.a_switched = self.b_yielded = False
        self.a_done = self.b_done = self.b_started = False
        self.abort = False
        self.exc_b = None
        self.go = {'A': _th.Semaphore(0), 'B': _th.Semaphore(0)}
        self.thread = None
        self.fb = None
        self.switches = []
        self.was_blocked = {'A': False, 'B': False}

    def _become(self, who):
        self.cur = who
        self.w.pid, self.w.tid = self.ids[who]

    def _to_b(self):
        """called by A: let B run until it yields or ends"""
        import threading as _th
        if self.b_done:
            return
        self._become('B')
        if not self.b_started:
            self.b_started = True
            self.thread = _th.Thread(target=self._run_b, daemon=True)
            self.thread.start()
        else:
            self.go['B'].release()
        self.go['A'].acquire()
        self._become('A')
        if self.exc_b is not None and isinstance(self.exc_b, (PathEnd, zpath.Inconclusive, Crash)):
            e, self.exc_b = self.exc_b, None
            raise e

    def _to_a(self):
        """called by B: let A run to its end"""
        self._become('A')
        self.go['A'].release()
        self.go['B'].acquire()
        if self.abort:
            raise PathEnd('interleaving aborted')
        self._become('B')

    def _run_b(self):
        try:
            self.fb()
        except BaseException as e:  # re-raised in the main thread
            self.exc_b = e
        finally:
            self.b_done = True
            self._become('A')
            self.go['A'].release()

    def on_event(self, kind, detail):
        w = self.w
        who = self.cur
        i = self.n[who]
        self.n[who] += 1
        w.log.append((len(w.log), kind, (detail if kind != 'sql' else detail[:60]) + ' @' + who))
        if who == 'A' and not self.a_switched and (self.a_at == i):
            self.a_switched = True
            self.switches.append(('A', i, kind, detail[:40]))
            zpath.flag('interleaved')
            self._to_b()
        elif who == 'B' and not self.b_yielded and not self.a_done and (self.b_at == i):
            self.b_yielded = True
            self.switches.append(('B', i, kind, detail[:40]))
            zpath.flag('both_suspended')
            self._to_a()

    def blocked(self):
        """the running client met the write lock held by the suspended one: the other one goes first"""
        if self.cur == 'B' and not self.a_done:
            self.was_blocked['B'] = True
            self.b_yielded = True
            zpath.flag('blocked_on_suspended')
            self._to_a()
            return True
        if self.cur == 'A' and self.b_started and not self.b_done:
            self.was_blocked['A'] = True
            zpath.flag('blocked_on_suspended')
            self.b_yielded = True
            self._to_b()
            return True
        return False

    def run(self, fa, fb):
        self.fb = fb
        w = self.w
        w.il = self
        self._become('A')
        try:
            fa()
            self.a_done = True
            if self.b_started and not self.b_done:
                self._to_b()
        finally:
            self.a_done = True
            if self.b_started and not self.b_done:
                # A ended abnormally (path end): wake B so that its thread terminates
                self.abort = True
                self.go['B'].release()
                self.go['A'].acquire()
            if self.thread is not None:
                self.thread.join(10)
            w.il = None
            self._become('A')
        if self.exc_b is not None:
            e, self.exc_b = self.exc_b, None
            raise e
        return self.b_started


class BaseWorld:
    """event counting and directives shared by the model backend and the real backend"""
    is_real = False

    def __init__(self, L, page=None, batch=None):
        self.L = L
        self.pid, self.tid = 100, 1
        self.nevents = 0
        self.counting = False
        self.log = []
        self.frozen = False
        self.crash_at = None
        self.fault_at = None
        self.fault_kind = None
        self.interfere_at = None
        self.interfere_hook = None
        self.interfering = False
        self.interfere2_at = None
        self.interfere2_hook = None
        self.interfering2 = False
        self.nevents2 = 0
        self.times = []
        self.clock_fn = None
        self.urandom_ctr = 0
        self.page, self.batch = page, batch
        self.sleeps = 0
        self.max_sleeps = 4
        self.begin_hook = None
        self.event_hooks = []
        self.busy_hook = None
        self.il = None
        zpath.TOKENS.clear()
        self.install()

    def spin(self):
        """a BEGIN met the write lock held by a suspended client: a retrying caller would wait for ever in a
        well-nested schedule -- cut after 2 spins ("still waiting" is a legal prefix)"""
        if self.il is not None and self.il.blocked():
            return
        self.spins = getattr(self, 'spins', 0) + 1
        if self.spins > 2 and getattr(self, 'soft_block', False):
            self.spins = 0
            raise WouldBlock()
        if self.spins > 2:
            ex = Ctx.cur
            if ex is not None:
                ex.aborting = True
            raise Spin('waiting for a lock held by a suspended client')

    def preconnect(self, handle, ident):
        """open the connection client `ident` = (pid, tid) uses on `handle` now, outside the counted events (a client that has used the
        cache before does not run the connection set-up inside the call under test)"""
        old = (self.pid, self.tid)
        was = self.counting
        self.counting = False
        self.pid, self.tid = ident
        try:
            for h in getattr(handle, '_shards', None) or [handle]:
                h._con
        finally:
            self.pid, self.tid = old
            self.counting = was

    def interleave(self, fa, fb, a_at, b_at, id_a=(100, 1), id_b=(200, 1)):
        """run fa and fb as two clients that are both suspended part-way (see Interleaver); returns True if B ran inside A"""
        il = Interleaver(self, a_at, b_at, {'A': id_a, 'B': id_b})
        il.run(fa, fb)
        return il

    def refused(self):
        """a busy hook refused a BEGIN: a caller that retries against a lock that is never released would loop for ever -- cut"""
        self.refusals = getattr(self, 'refusals', 0) + 1
        if self.refusals > 60:
            ex = Ctx.cur
            if ex is not None:
                ex.aborting = True
            raise Spin('retrying against a lock that is never released')

    # ---- events / directives
    def start_events(self):
        self.counting = True
        self.nevents = 0

    def stop_events(self):
        self.counting = False

    def event(self, kind, detail, con=None):
        if self.frozen:
            raise Crash()
        ex = Ctx.cur
        if ex is not None and ex.aborting:
            raise PathEnd('aborting')
        if self.il is not None:
            if self.counting:
                self.il.on_event(kind, detail)
            return
        if self.interfering and self.counting and self.interfere2_at is not None and not self.interfering2:
            # depth-2 nesting: client C inside client B's call (own event counter)
            j = self.nevents2
            self.nevents2 += 1
            if self.interfere2_at == j:
                self.interfering2 = True
                zpath.flag('interfered2')
                try:
                    self.interfere2_hook()
                finally:
                    self.interfering2 = False
            return
        if not self.counting or self.interfering:
            return
        i = self.nevents
        self.nevents += 1
        self.log.append((i, kind, detail if kind != 'sql' else detail[:60]))
        if self.crash_at is not None and (self.crash_at == i):
            if self.is_real:
                if getattr(self, 'in_child', False):
                    import os as _o, signal as _s
                    _o.kill(_o.getpid(), _s.SIGKILL)
            else:
                self.frozen = True
                raise Crash()
        # injected faults: any statement except COMMIT/ROLLBACK (a failing COMMIT is an I/O failure, i.e. a crash point: C07)
        # and any file create/write/close (failing removals only leave debris and are outside the claim)
        if self.fault_at is not None and not (kind == 'sql' and detail.split(' ')[0] in ('COMMIT', 'ROLLBACK', 'after')) \
                and not (kind == 'fs' and detail.split(':')[0] in ('remove', 'removedirs', 'rmdir', 'stat', 'scandir', 'listdir', 'read')) \
                and (self.fault_at == i):
            zpath.flag('fault_injected')
            self.fault_fired = (i, kind, detail)
            if kind == 'sql':
                raise self.sqlite3.OperationalError('injected fault')
            raise OSError(5, 'injected I/O error')
        if self.interfere_at is not None and (self.interfere_at == i):
            self.interfering = True
            zpath.flag('interfered')
            self.interfered_at = (i, kind, detail)
            try:
                self.interfere_hook()
            finally:
                self.interfering = False
        for h in self.event_hooks:
            h(i, kind, detail, con)

    def _bind_modules(self, sq, open_fn, osm, opm, tm, th):
        L = self.L
        self.osm, self.opm, self.tm, self.th = osm, opm, tm, th
        core = L.core
        core.sqlite3 = sq
        core.open = open_fn
        core.os = osm
        core.op = opm
        core.time = tm
        core.threading = th
        core.type = zpath.sym_type
        core.isinstance = zpath.sym_isinstance
        if self.page is not None:
            core._VERIF_PAGE = self.page
        if self.batch is not None:
            core._VERIF_BATCH = self.batch
        for name in ('persistent', 'fanout', 'recipes', 'djangocache'):
            m = getattr(L, name, None)
            if m is None:
                continue
            if hasattr(m, 'time'):
                m.time = tm
            if hasattr(m, 'os'):
                m.os = osm
            if hasattr(m, 'op') and name == 'fanout':
                m.op = opm
            if hasattr(m, 'threading'):
                m.threading = th
            if hasattr(m, 'sqlite3'):
                m.sqlite3 = sq
            m.type = zpath.sym_type
            m.isinstance = zpath.sym_isinstance


class World(BaseWorld):
    """model backend"""
    is_real = False
    dir = '/m'

    def __init__(self, L, page=None, batch=None):
        self.fs = ModelFS(self)
        self.dbs = {}  # path -> ModelDB
        self.interner = sqlmodel.Interner()  # one id space for all databases of this world
        super().__init__(L, page, batch)

    # ---- clock
    def time(self):
        import sys as _sys
        if _sys._getframe(1).f_code.co_name in ('_execute_with_retry', 'reset'):
            # the 60 s deadlines of Cache._sql_retry and of the PRAGMA loop in Cache.reset: not a reading of the cache's clock (the wait is modelled by outcome, not by duration)
            return 0.0
        if self.clock_fn is not None:
            return self.clock_fn()
        k = len(self.times)
        t = z3.Real('t%d' % k) if sx.REAL_MODE else z3.Int('t%d' % k)
        if self.times:
            assume(t >= self.times[-1])
        else:
            assume(t >= 1)  # the clock reads a positive epoch time
        assume(t <= 2 ** 62)
        self.times.append(t)
        return R(t)

    def sleep(self, d):
        if self.il is not None and self.il.blocked():
            return  # polling for something the suspended client holds: that client runs on first
        self.sleeps += 1
        if self.sleeps > self.max_sleeps and getattr(self, 'soft_block', False):
            self.sleeps = 0
            raise WouldBlock()
        if self.sleeps > self.max_sleeps:
            ex = Ctx.cur
            if ex is not None:
                ex.aborting = True
            raise Spin('sleep bound')
        self.event('sleep', str(d))

    def urandom(self, n):
        return det_urandom(self, n)

    # ---- databases
    def db_for(self, path):
        path = _np(path)  # one database per file, however its path is spelled
        if path not in self.dbs:
            db = ModelDB(self)
            db.intern = self.interner
            self.dbs[path] = db
            self.fs.add_file(path, b'<sqlite>')
        return self.dbs[path]

    def connect(self, path, timeout=0, isolation_level=None, **kw):
        if isolation_level is not None:
            raise sqlmodel.Unsupported('connection not in autocommit mode')
        d = posixpath.dirname(path)
        if d not in self.fs.dirs:
            raise self.sqlite3.OperationalError('unable to open database file')
        return Connection(self.db_for(path), name='c%d.%d' % (self.pid, self.tid), timeout=timeout)

    # ---- installation of the seams
    def install(self):
        L = self.L
        w = self
        sq = types.SimpleNamespace(
            connect=self.connect, OperationalError=sqlmodel.OperationalError, IntegrityError=sqlmodel.IntegrityError,
            InterfaceError=sqlmodel.InterfaceError, ProgrammingError=sqlmodel.ProgrammingError,
            Binary=_real_sqlite3.Binary, Error=Exception, DatabaseError=Exception)
        self.sqlite3 = sq
        osm = types.SimpleNamespace(
            makedirs=self.fs.makedirs, remove=self.fs.remove, removedirs=self.fs.removedirs, rmdir=self.fs.rmdir,
            walk=self.fs.walk, listdir=self.fs.os_listdir, urandom=self.urandom, getpid=lambda: w.pid,
            linesep=_real_os.linesep, fspath=_real_os.fspath, path=None, sep='/', error=OSError, environ={})
        opm = types.SimpleNamespace(
            join=_join, split=_split, getsize=self.fs.getsize, exists=self.fs.exists,
            isdir=self.fs.isdir, expanduser=posixpath.expanduser, expandvars=posixpath.expandvars, dirname=posixpath.dirname,
            basename=posixpath.basename)
        osm.path = opm
        tm = types.SimpleNamespace(time=self.time, sleep=self.sleep, monotonic=self.time)
        th = types.SimpleNamespace(local=lambda: Local(w), get_ident=lambda: w.tid, get_native_id=lambda: 70000 + w.tid, Thread=None)
        self._bind_modules(sq, self.fs.open, osm, opm, tm, th)
        self.tmp_ctr = 0

        def mkdtemp(suffix=None, prefix=None, dir=None):
            w.tmp_ctr += 1
            d = '/tmp/%s%d' % (prefix or 'tmp', w.tmp_ctr)
            w.fs.add_dir(d)
            return d

        def rmtree(d, ignore_errors=False, onerror=None):
            for p in [p for p in w.fs.files if p.startswith(d + '/')]:
                del w.fs.files[p]
            for p in [p for p in w.fs.dirs if p == d or p.startswith(d + '/')]:
                w.fs.dirs.discard(p)
            self.dbs.pop(posixpath.join(d, 'cache.db'), None)
        L.core.tempfile = types.SimpleNamespace(mkdtemp=mkdtemp)
        if getattr(L, 'persistent', None) is not None:
            L.persistent.rmtree = rmtree
        if getattr(L, 'fanout', None) is not None:
            L.fanout.tempfile = types.SimpleNamespace(mkdtemp=mkdtemp)
            if hasattr(L.fanout, 'shutil'):
                L.fanout.shutil = types.SimpleNamespace(rmtree=rmtree)

    # ---- symbolic inputs (names are the replay interface)
    def int(self, name, lo=None, hi=None):
        v = z3.Int(name)
        if lo is not None:
            assume(v >= lo)
        if hi is not None:
            assume(v <= hi)
        return I(v)

    def real(self, name, lo=None, hi=None):
        v = z3.Real(name) if sx.REAL_MODE else z3.Int(name)
        if lo is not None:
            assume(v >= lo)
        if hi is not None:
            assume(v <= hi)
        return R(v)

    def bool(self, name):
        return B(z3.Bool(name))

    def choice(self, name, options):
        """symbolic choice among concrete python objects (forks when used)"""
        i = int(self.int(name, 0, len(options) - 1))
        return options[i]



    # ---- backend interface used by scenarios
    def new_cache(self, directory=None, cls_getter=None, **settings):
        return new_cache(self, directory or self.dir, cls_getter, **settings)

    def clone_handle(self, obj0):
        return clone_handle(self, obj0)

    def intern_text(self, s):
        return self.interner.intern(sqlmodel.TEXT, s)

    def set_page_count(self, cache, fn):
        cache._con.db.page_count = fn

    def install_rows(self, cache, rowspecs, hits=0, misses=0):
        from . import state
        state.install_model(self, cache, rowspecs, hits, misses)

    def snapshot(self, cache):
        from . import state
        return state.snapshot_model(self, cache)

    def add_prefile(self, relpath, content, size, exists):
        self.fs.add_file(posixpath.join(self.dir, relpath), content=content, size=size, exists=exists)

    def val_files(self, cache):
        d = cache._directory
        out = []
        for p, f in self.fs.files.items():
            if p.startswith(d + '/') and p.endswith('.val'):
                sz = f.size.z if isinstance(f.size, I) else f.size
                out.append((p[len(d) + 1:], f.exists, sz, f.complete))
        return out

    def cleanup(self):
        pass

    def set_busy_hook(self, cache, fn):
        cache._con.db.busy_hook = fn

    def set_busy_all_hook(self, cache, fn):
        """fn(con, sql) -> True: the statement fails with 'database is locked' (a lock that blocks every statement, reads included)"""
        cache._con.db.busy_all_hook = fn

    # ---- out-of-band damage (C17)
    def damage_file(self, cache, rel, deleted, new_size):
        f = self.fs.files[_np(posixpath.join(cache._directory, rel))]
        f.exists = sx.simp(sx.And(f.exists, sx.Not(deleted)))
        f.size = new_size

    def add_extra(self, cache, rel, exists, size=0, is_dir=False):
        p = posixpath.join(cache._directory, rel)
        if is_dir:
            self.fs.add_dir(p)
        else:
            self.fs.add_file(p, content=b'?', size=size, exists=exists)

    def bump_counter(self, cache, name, delta):
        db = cache._con.db
        for r in db.committed.tables['Settings']:
            if db.intern.lookup(sqlmodel.TEXT, sqlmodel.frac_of(r.c['key'].num)) == name:
                r.c['value'] = Cell(sqlmodel.INT, sx.AddR(r.c['value'].num, delta))

    def dir_listing(self, cache):
        """{dir relative path: (subdirs, [(file, exists)])} for the oracle of check()"""
        d0 = _np(cache._directory)
        out = {}
        for d in sorted(self.fs.dirs):
            if d == d0 or d.startswith(d0 + '/'):
                subs = [p for p in self.fs.dirs if posixpath.dirname(p) == d]
                files = [(p, f.exists) for p, f in self.fs.files.items() if posixpath.dirname(p) == d and f.exists is not False]
                out[d] = (subs, files)
        return out

    def recover(self):
        """the process died: SQLite keeps the last committed state and the lock is released (assumed contract);
        the file system stays as it is"""
        for db in self.dbs.values():
            db.txn_state = None
            db.lock_holder = None
        self.frozen = False
        self.crash_at = None
        self.counting = False

    def bind(self, v):
        if isinstance(v, SymContent):
            return Cell(sqlmodel.BLOB, v.cid)
        if not hasattr(self, '_bind_con'):
            db = ModelDB(self)
            db.intern = self.interner
            self._bind_con = Connection(db)
        return self._bind_con.bind(v)

    def file_content(self, cache, rel):
        return self.fs.files[_np(posixpath.join(cache._directory, rel))].content

# ------------------------------------------------------------------ cache templates
# The real Cache.__init__ is executed once (concretely, on an empty model database) per distinct
# configuration; each path then starts from a copy of the resulting database / file system / object.
_TEMPLATES = {}


class _Template:
    pass


def _make_template(L, cls_getter, directory, settings, page, batch):
    saved = Ctx.cur
    Ctx.cur = None
    try:
        w0 = World(L, page=page, batch=batch)
        w0.fs.add_dir(posixpath.dirname(directory) or '/')
        w0.clock_fn = lambda: 0.0
        cls = cls_getter(L)
        obj = cls(directory, **settings)
        t = _Template()
        t.dbs = w0.dbs
        t.fs_files, t.fs_dirs = w0.fs.copy_state()
        t.obj = obj
        return t
    finally:
        Ctx.cur = saved


def _clone_db(world, db0):
    db = ModelDB(world)
    db0.clone_schema_into(db)
    db._trigger_names = list(getattr(db0, '_trigger_names', []))
    db.committed = db0.committed.copy()
    # re-intern the template's strings into the world's single id space
    db.intern = world.interner
    for rows in db.committed.tables.values():
        for r in rows:
            for col, cell in list(r.c.items()):
                k = cell.cls
                if k in (sqlmodel.TEXT, sqlmodel.BLOB) and not sx.isz(cell.num):
                    obj = db0.intern.lookup(k, cell.num)
                    r.c[col] = Cell(k, world.interner.intern(k, obj))
    return db


def new_cache(world, directory='/m', cls_getter=None, **settings):
    """a real Cache object (constructed by the real __init__ on an empty model database) attached to `world`"""
    L = world.L
    cls_getter = cls_getter or (lambda L: L.core.Cache)
    key = (id(L), directory, cls_getter(L), tuple(sorted((k, repr(v)) for k, v in settings.items())), world.page, world.batch)
    t = _TEMPLATES.get(key)
    if t is None:
        t = _make_template(L, cls_getter, directory, settings, world.page, world.batch)
        _TEMPLATES[key] = t
        world.install()
    for path, db0 in t.dbs.items():
        if path not in world.dbs:
            world.dbs[path] = _clone_db(world, db0)
    for p, f in t.fs_files.items():
        world.fs.files.setdefault(p, f.copy())
    world.fs.dirs |= t.fs_dirs
    return clone_handle(world, t.obj)


def clone_handle(world, obj0, preconnect=True):
    """another handle (same settings) on the same directory, as a second process/thread would open it"""
    obj = object.__new__(type(obj0))
    obj.__dict__.update(obj0.__dict__)
    obj._local = Local(world)
    obj._disk = copy.copy(obj0._disk)
    obj._txn_id = None
    if preconnect:
        # what the real `_con` leaves in the thread-local after its first use (the real `_con` code itself
        # is executed by the C18 obligations and by every template construction)
        obj._local.pid = world.pid
        obj._local.con = Connection(world.db_for(posixpath.join(obj._directory, 'cache.db')),
                                    name='c%d.%d' % (world.pid, world.tid), timeout=obj._timeout)
        # the per-connection settings `_con` applies on first use
        for k_ in list(obj._local.con.pragmas):
            v_ = getattr(obj0, 'sqlite_' + k_, None)
            if v_ is not None:
                obj._local.con.pragmas[k_] = v_
    return obj
