"""E1 `zpath`: a small z3-backed path explorer (dynamic symbolic execution by re-execution).

The real diskcache code is run on operator-overloading proxies (`I` int, `R` real, `B` bool).
Whenever Python asks a proxy for a concrete truth value the explorer consults z3: if only one
side is feasible under the current path condition the execution is forced down that side,
otherwise a decision is recorded and the other side is explored by re-executing the obligation
from the start (depth-first, deterministic).  At the end of each path the obligation returns a z3
formula `ok`; the explorer asks z3 for a model of  path-condition AND NOT ok.

    unsat on every path  -> the obligation holds for every value of the symbolic inputs (bounds = the
                            obligation's own assumptions)
    sat on some path     -> concrete counterexample (a z3 model) -> replayed on the real stack
    unknown / budget     -> inconclusive (never reported as success)

Statistics (paths, feasibility queries, verdict queries, solver seconds) are recorded natively.
"""
import time
import z3
from fractions import Fraction


import os as _os
DUMP_SLOW = float(_os.environ.get('VERIF_DUMP_SLOW', '0'))
QUERY_TIMEOUT_MS = int(_os.environ.get('VERIF_QUERY_TIMEOUT_MS', '60000'))


XCHECK = int(_os.environ.get('VERIF_XCHECK', '0'))  # re-check up to this many verdict queries per obligation with cvc5


def cvc5_check(smt2, timeout_ms=20000):
    """decide an SMT-LIB2 script (as produced by Solver.to_smt2) with cvc5; returns 'sat' / 'unsat' / 'unknown'"""
    import cvc5
    slv = cvc5.Solver()
    slv.setOption('tlimit-per', str(timeout_ms))
    slv.setLogic('QF_LIRA')
    parser = cvc5.InputParser(slv)
    parser.setStringInput(cvc5.InputLanguage.SMT_LIB_2_6, smt2, 'query')
    sm = parser.getSymbolManager()
    out = []
    while True:
        cmd = parser.nextCommand()
        if cmd.isNull():
            break
        r = cmd.invoke(slv, sm)
        if r:
            out.append(str(r).strip())
    for r in reversed(out):
        if r in ('sat', 'unsat', 'unknown'):
            return r
    return 'unknown'


class PathEnd(BaseException):
    """Abort the current path (infeasible assumption or explicit bound).  BaseException so that the
    real code's `except Exception` clauses do not swallow it."""


class Inconclusive(BaseException):
    pass


class Ctx:
    cur = None  # the active Explorer (None => concrete mode: ground formulas only)


class Stats:
    def __init__(self):
        self.paths = 0
        self.aborted_paths = 0
        self.feas_queries = 0
        self.verdict_queries = 0
        self.solver_s = 0.0
        self.forced = 0
        self.decisions = 0
        self.xchecked = 0
        self.xcheck_agree = 0
        self.xcheck_disagree = 0
        self.xcheck_unknown = 0
        self.xcheck_errors = 0
        self.xcheck_s = 0.0

    def as_dict(self):
        return dict(self.__dict__)


class Result:
    def __init__(self, status, model=None, info=None, stats=None, flags=None, samples=None):
        self.status = status  # 'holds' | 'cex' | 'inconclusive'
        self.model = model
        self.info = info or {}
        self.stats = stats
        self.flags = flags or {}
        self.samples = samples or []


def _is_true(e):
    return z3.is_true(e)


def _is_false(e):
    return z3.is_false(e)


class Explorer:
    def __init__(self, budget_s=None, max_paths=None, sample_vars=None, max_samples=4):
        self.stack = []  # entries: [choice, flipped, other_model]
        self.stats = Stats()
        self.budget_s = budget_s
        self.max_paths = max_paths
        self.flags = {}
        self.samples = []
        self.max_samples = max_samples
        self.sample_vars = sample_vars
        self.aborting = False
        self.path_log = None
        self.nontrivial_paths = 0

    # ---- per path state
    def _reset_path(self):
        self.pos = 0
        self.solver = z3.Solver()
        self.solver.set('timeout', QUERY_TIMEOUT_MS)
        self.model = None  # a model of the current path condition (or None = must recompute)
        self.model_valid = False
        self.aborting = False
        self.path_flags = set()
        self.notes = []
        self.fresh = 0
        self.pc_len = 0

    def flag(self, name):
        self.path_flags.add(name)

    def note(self, x):
        self.notes.append(x)

    def fresh_name(self, base):
        self.fresh += 1
        return '%s!%d' % (base, self.fresh)

    def _check(self, *extra, verdict=False):
        t = time.time()
        if extra:
            self.solver.push()
            self.solver.add(*extra)
        if DUMP_SLOW:
            smt = self.solver.to_smt2()
        r = self.solver.check()
        if verdict and XCHECK and self.stats.xchecked < XCHECK and r in (z3.sat, z3.unsat):
            try:
                t1 = time.time()
                smt2 = self.solver.to_smt2().replace('(set-info :status', '; (set-info :status')
                r2 = cvc5_check(smt2)
                self.stats.xcheck_s += time.time() - t1
                self.stats.xchecked += 1
                if r2 in ('sat', 'unsat'):
                    if r2 != str(r):
                        self.stats.xcheck_disagree += 1
                    else:
                        self.stats.xcheck_agree += 1
                else:
                    self.stats.xcheck_unknown += 1
            except Exception as e:  # the cross-check is best effort; its failure is recorded, not fatal
                self.stats.xcheck_errors += 1
                self.stats.xchecked += 1
                if _os.environ.get('VERIF_XCHECK_DEBUG'):
                    print('XCHECK ERROR', type(e).__name__, str(e)[:300])
        if DUMP_SLOW and time.time() - t > DUMP_SLOW:
            open('/tmp/slow_%d.smt2' % int(time.time() * 1000), 'w').write(smt)
        m = self.solver.model() if r == z3.sat else None
        if extra:
            self.solver.pop()
        dt = time.time() - t
        self.stats.solver_s += dt
        if verdict:
            self.stats.verdict_queries += 1
        else:
            self.stats.feas_queries += 1
        if self.budget_s is not None and time.time() - self.t0 > self.budget_s:
            raise Inconclusive('budget of %ss exhausted' % self.budget_s)
        return r, m

    def _ensure_model(self):
        if not self.model_valid:
            r, m = self._check()
            if r == z3.unsat:
                self.aborting = True
                raise PathEnd('path condition unsatisfiable')
            if r != z3.sat:
                raise Inconclusive('solver returned %s on path condition' % r)
            self.model = m
            self.model_valid = True
        return self.model

    def _add(self, lit):
        self.solver.add(lit)
        self.pc_len += 1

    def assume(self, cond):
        """Add an assumption (part of the obligation's stated bound)."""
        if self.aborting:
            raise PathEnd('aborting')
        cond = z3.simplify(cond) if not isinstance(cond, bool) else z3.BoolVal(cond)
        if _is_true(cond):
            return
        self._add(cond)
        if self.pos < len(self.stack):
            return  # replaying a prefix: known satisfiable
        if self.model_valid:
            v = self.model.eval(cond, model_completion=True)
            if _is_true(v):
                return
        self.model_valid = False
        self._ensure_model()

    def branch(self, cond):
        if self.aborting:
            raise PathEnd('aborting')
        cond = z3.simplify(cond)
        if _is_true(cond):
            return True
        if _is_false(cond):
            return False
        if self.pos < len(self.stack):
            ent = self.stack[self.pos]
            self.pos += 1
            c = ent[0]
            self._add(cond if c else z3.Not(cond))
            if self.pos == len(self.stack):
                # end of the recorded prefix: the last entry is the newly flipped decision; the model
                # found for that side when the decision was created fits the whole prefix
                self.model = ent[2]
                self.model_valid = ent[2] is not None
            return c
        m = self._ensure_model()
        v = m.eval(cond, model_completion=True)
        if _is_true(v):
            side = True
        elif _is_false(v):
            side = False
        else:  # could not evaluate: ask the solver for the True side
            r, m2 = self._check(cond)
            if r == z3.sat:
                side = True
                self.model = m2
            elif r == z3.unsat:
                side = False
                self._add(z3.Not(cond))
                self.model_valid = False
                self.stats.forced += 1
                self.stack.append([False, True, None])
                self.pos += 1
                return False
            else:
                raise Inconclusive('solver returned %s' % r)
        other = z3.Not(cond) if side else cond
        r, m_other = self._check(other)
        if r == z3.unsat:
            self.stats.forced += 1
            self.stack.append([side, True, None])  # forced outcome: recorded, never flipped
            self.pos += 1
            self._add(cond if side else z3.Not(cond))
            return side
        if r != z3.sat:
            raise Inconclusive('solver returned %s' % r)
        self.stats.decisions += 1
        self.stack.append([side, False, m_other])
        self.pos += 1
        self._add(cond if side else z3.Not(cond))
        return side

    def concretize_int(self, expr):
        """Realise an Int-sorted term by binary forks (== v / != v): exhaustive on finite domains."""
        while True:
            expr_s = z3.simplify(expr)
            if z3.is_int_value(expr_s):
                return expr_s.as_long()
            if self.pos < len(self.stack):
                # replaying: we must reproduce the same candidate values; they are recorded in notes
                pass
            m = self._ensure_model() if self.pos >= len(self.stack) else None
            if m is not None:
                v = m.eval(expr_s, model_completion=True).as_long()
                self._cvals.append(v)
            else:
                v = self._replay_cvals()
            if self.branch(expr_s == v):
                return v

    # The candidate values chosen by concretize must be identical on re-execution; they are a
    # function of the model, which is not available while replaying a prefix.  Record them.
    def _replay_cvals(self):
        v = self._cvals_prev[self._cval_pos]
        self._cval_pos += 1
        self._cvals.append(v)
        return v

    def concretize_real(self, expr):
        if expr.sort().kind() == z3.Z3_INT_SORT:
            return self.concretize_int(expr)
        while True:
            expr_s = z3.simplify(expr)
            if z3.is_rational_value(expr_s):
                return Fraction(expr_s.numerator_as_long(), expr_s.denominator_as_long())
            m = self._ensure_model() if self.pos >= len(self.stack) else None
            if m is not None:
                val = m.eval(expr_s, model_completion=True)
                v = Fraction(val.numerator_as_long(), val.denominator_as_long())
                self._cvals.append(v)
            else:
                v = self._replay_cvals()
            if self.branch(expr_s == z3.RealVal(str(v))):
                return v

    # ---- main loop
    def run(self, fn):
        """fn() -> z3 BoolRef / B / bool, evaluated at the end of each path."""
        self.t0 = time.time()
        self._cvals_prev = []
        try:
            while True:
                self._reset_path()
                self._cvals = []
                self._cval_pos = 0
                Ctx.cur = self
                info = {}
                try:
                    ok = fn()
                except PathEnd:
                    ok = None
                    self.stats.aborted_paths += 1
                finally:
                    Ctx.cur = None
                self.stats.paths += 1
                if ok is not None:
                    if isinstance(ok, tuple):
                        ok, info = ok
                    okz = ok.z if isinstance(ok, B) else (z3.BoolVal(bool(ok)) if isinstance(ok, bool) else ok)
                    okz = z3.simplify(okz)
                    for f in self.path_flags:
                        self.flags[f] = self.flags.get(f, 0) + 1
                    if 'nontrivial' in self.path_flags:
                        self.nontrivial_paths += 1
                    if not _is_true(okz):
                        r, m = self._check(z3.Not(okz), verdict=True)
                        if r == z3.sat:
                            return Result('cex', m, dict(info, notes=list(self.notes)), self.stats, self.flags, self.samples)
                        if r != z3.unsat:
                            return Result('inconclusive', None, {'reason': 'verdict query: %s' % r}, self.stats, self.flags, self.samples)
                    else:
                        self.stats.verdict_queries += 0
                    if self.sample_vars is not None and len(self.samples) < self.max_samples:
                        try:
                            m = self._ensure_model()
                            self.samples.append({'path': self.stats.paths, 'flags': sorted(self.path_flags),
                                                 'witness': {str(v): str(m.eval(v, model_completion=True)) for v in self.sample_vars()}})
                        except PathEnd:
                            pass
                # backtrack
                while self.stack and self.stack[-1][1]:
                    self.stack.pop()
                if not self.stack:
                    return Result('holds', None, {}, self.stats, self.flags, self.samples)
                top = self.stack[-1]
                top[0] = not top[0]
                top[1] = True
                # candidate values chosen up to that decision stay valid for the replayed prefix
                self._cvals_prev = list(self._cvals)
                if self.max_paths is not None and self.stats.paths >= self.max_paths:
                    return Result('inconclusive', None, {'reason': 'max_paths'}, self.stats, self.flags, self.samples)
        except Inconclusive as e:
            Ctx.cur = None
            return Result('inconclusive', None, {'reason': str(e)}, self.stats, self.flags, self.samples)


# ------------------------------------------------------------------ proxies

def _ground_bool(z):
    z = z3.simplify(z)
    if z3.is_true(z):
        return True
    if z3.is_false(z):
        return False
    raise RuntimeError('non-ground condition in concrete mode: %s' % z)


class B:
    """symbolic bool"""
    __slots__ = ('z',)

    def __init__(self, z):
        self.z = z if not isinstance(z, bool) else z3.BoolVal(z)

    def __bool__(self):
        ex = Ctx.cur
        if ex is None:
            return _ground_bool(self.z)
        return ex.branch(self.z)

    def __eq__(self, o):
        return B(self.z == zb(o))

    def __ne__(self, o):
        return B(self.z != zb(o))

    def __and__(self, o):
        return B(z3.And(self.z, zb(o)))

    __rand__ = __and__

    def __or__(self, o):
        return B(z3.Or(self.z, zb(o)))

    __ror__ = __or__

    def __invert__(self):
        return B(z3.Not(self.z))

    def __index__(self):
        return 1 if bool(self) else 0

    __int__ = __index__
    __hash__ = None

    def __repr__(self):
        return 'B(%s)' % self.z


def zb(x):
    if isinstance(x, B):
        return x.z
    if isinstance(x, bool):
        return z3.BoolVal(x)
    if z3.is_expr(x):
        return x
    raise TypeError('not a bool: %r' % (x,))


TOKENS = []  # per path: placeholder tokens for proxies formatted into strings (reset by World)


def make_token(z, isfloat=False):
    TOKENS.append((z, isfloat))
    return '⟦%d⟧' % (len(TOKENS) - 1)


def is_real_sort(z):
    return z.sort().kind() == z3.Z3_REAL_SORT


def zi(x):
    """lift to an Int-sorted term"""
    if isinstance(x, I):
        return x.z
    if isinstance(x, B):
        return z3.If(x.z, 1, 0)
    if isinstance(x, bool):
        return z3.IntVal(int(x))
    if isinstance(x, int):
        return z3.IntVal(x)
    raise TypeError('not an int: %r' % (x,))


def zr(x):
    """lift to the sort of "float" quantities (Int in integer-time mode, Real in real mode)"""
    from . import sx
    if isinstance(x, (R, I)):
        x = x.z
    elif z3.is_expr(x):
        pass
    elif isinstance(x, B):
        x = z3.If(x.z, 1, 0)
    elif isinstance(x, float) and (x != x or x in (float('inf'), float('-inf'))):
        raise Inconclusive('non-finite float in symbolic arithmetic')
    elif not isinstance(x, (bool, int, float, Fraction)):
        raise TypeError('not a number: %r' % (x,))
    try:
        return sx.zR(x)
    except sx.NonInteger as e:
        raise Inconclusive(str(e))


def is_num(x):
    return isinstance(x, (I, R, int, float, Fraction)) and not isinstance(x, bool) or isinstance(x, (bool, B))


def _isintlike(x):
    return isinstance(x, (I, int, B)) and not isinstance(x, float)


class _Num:
    __slots__ = ('z',)
    __hash__ = None

    def _cmp(self, o, op):
        if not isinstance(o, (I, R, int, float, Fraction, B)):
            return NotImplemented
        if isinstance(o, float) and o in (float('inf'), float('-inf')):
            # every symbolic number is finite
            return B(z3.BoolVal(bool(op(0, 1 if o > 0 else -1))))
        if isinstance(self, I) and _isintlike(o):
            return B(op(self.z, zi(o)))
        return B(op(zr(self), zr(o)))

    def __lt__(self, o):
        return self._cmp(o, lambda a, b: a < b)

    def __le__(self, o):
        return self._cmp(o, lambda a, b: a <= b)

    def __gt__(self, o):
        return self._cmp(o, lambda a, b: a > b)

    def __ge__(self, o):
        return self._cmp(o, lambda a, b: a >= b)

    def __eq__(self, o):
        r = self._cmp(o, lambda a, b: a == b)
        return False if r is NotImplemented else r

    def __ne__(self, o):
        r = self._cmp(o, lambda a, b: a != b)
        return True if r is NotImplemented else r

    def _arith(self, o, op, swap=False):
        if not isinstance(o, (I, R, int, float, Fraction, B)):
            return NotImplemented
        if isinstance(self, I) and _isintlike(o):
            a, b = self.z, zi(o)
            return I(op(b, a) if swap else op(a, b))
        a, b = zr(self), zr(o)
        return R(op(b, a) if swap else op(a, b))

    def __add__(self, o):
        return self._arith(o, lambda a, b: a + b)

    __radd__ = __add__

    def __sub__(self, o):
        return self._arith(o, lambda a, b: a - b)

    def __rsub__(self, o):
        return self._arith(o, lambda a, b: a - b, swap=True)

    def __mul__(self, o):
        return self._arith(o, lambda a, b: a * b)

    __rmul__ = __mul__

    def __truediv__(self, o):
        from . import sx
        if not isinstance(o, (I, R, int, float, Fraction, B)):
            return NotImplemented
        if not sx.REAL_MODE:
            if isinstance(o, int) and not isinstance(o, bool) and o > 0 and Ctx.cur is not None:
                # integer-time mode: x / d for a concrete positive d is modelled for exactly divisible x only
                # (stated bound); the quotient is a fresh integer q with q * d == x
                q = z3.Int(Ctx.cur.fresh_name('quot'))
                Ctx.cur.assume(q * o == self.z)
                return R(q)
            if isinstance(o, int) and not isinstance(o, bool) and o > 0 and Ctx.cur is None:
                v = z3.simplify(self.z)
                if z3.is_int_value(v) and v.as_long() % o == 0:
                    return R(z3.IntVal(v.as_long() // o))
                return v.as_long() / o
            raise Inconclusive('true division in integer-time mode')
        return R(zr(self) / zr(o))

    def __rtruediv__(self, o):
        from . import sx
        if not isinstance(o, (I, R, int, float, Fraction, B)):
            return NotImplemented
        if not sx.REAL_MODE:
            raise Inconclusive('true division in integer-time mode')
        return R(zr(o) / zr(self))

    def __neg__(self):
        return type(self)(-self.z)

    def __pos__(self):
        return self

    def __abs__(self):
        return type(self)(z3.If(self.z >= 0, self.z, -self.z))

    def __bool__(self):
        ex = Ctx.cur
        if ex is None:
            return _ground_bool(self.z != 0)
        return ex.branch(self.z != 0)

    def __str__(self):
        return make_token(self.z, isinstance(self, R))

    def __format__(self, spec):
        return make_token(self.z, isinstance(self, R))

    def __repr__(self):
        return '%s(%s)' % (type(self).__name__, self.z)


class I(_Num):
    """symbolic int"""
    __slots__ = ()

    def __init__(self, z):
        self.z = z if z3.is_expr(z) else z3.IntVal(z)

    def __index__(self):
        ex = Ctx.cur
        if ex is None:
            return z3.simplify(self.z).as_long()
        return ex.concretize_int(self.z)

    __int__ = __index__

    def __hash__(self):
        # used as a dict key / set member: realise (fork) -- equal values then hash equally
        return hash(self.__index__())

    def __float__(self):
        return float(self.__index__())

    def bit_length(self):
        a = z3.If(self.z >= 0, self.z, -self.z)
        r = z3.IntVal(0)
        for n in range(80, 0, -1):
            r = z3.If(a < 2 ** (n - 1), r, z3.If(a < 2 ** n, n, r)) if n == 80 else z3.If(z3.And(a >= 2 ** (n - 1), a < 2 ** n), n, r)
        return I(r)

    def __and__(self, o):
        if isinstance(o, int) and not isinstance(o, bool) and o >= 0 and (o & (o + 1)) == 0:
            return I(self.z % (o + 1))  # x & (2**k - 1) == x mod 2**k (two's complement semantics of Python ints)
        return NotImplemented

    __rand__ = __and__

    def __floordiv__(self, o):
        if isinstance(o, int) and not isinstance(o, bool) and o > 0:
            return I(self.z / o)  # z3 int division floors for positive divisors, as Python does
        return NotImplemented

    def __mod__(self, o):
        if isinstance(o, int) and not isinstance(o, bool) and o > 0:
            return I(self.z % o)
        return NotImplemented


class R(_Num):
    """symbolic float, modelled as a mathematical real (rounding is outside every claim)"""
    __slots__ = ()

    def __init__(self, z):
        self.z = zr(z)

    def __float__(self):
        ex = Ctx.cur
        if ex is None:
            v = z3.simplify(self.z)
            if z3.is_int_value(v):
                return float(v.as_long())
            return float(Fraction(v.numerator_as_long(), v.denominator_as_long()))
        return float(ex.concretize_real(self.z))


def sym_type(x):
    """replacement for the builtin `type` in the loaded modules' namespaces"""
    if isinstance(x, I):
        return int
    if isinstance(x, R):
        return float
    if isinstance(x, B):
        return bool
    return type(x)


def sym_isinstance(x, t):
    if isinstance(x, (I, R, B)):
        ts = t if isinstance(t, tuple) else (t,)
        st = sym_type(x)
        return any(issubclass(st, tt) for tt in ts if isinstance(tt, type))
    return isinstance(x, t)


def assume(cond):
    ex = Ctx.cur
    z = cond.z if isinstance(cond, B) else cond
    if ex is None:
        if not _ground_bool(z if not isinstance(z, bool) else z3.BoolVal(z)):
            raise PathEnd('assumption false in concrete mode')
        return
    ex.assume(z)


def flag(name):
    if Ctx.cur is not None:
        Ctx.cur.flag(name)
