"""Runs one obligation: explore with E1, minimise + replay counterexamples on the real stack."""
import json
import os
import time
import traceback
import z3
from fractions import Fraction

from . import zpath, env, realenv, sx
from .zpath import Explorer, Ctx


class HarnessBug(BaseException):
    pass


def _from_code_under_test(e, L):
    tb = e.__traceback__
    root = os.path.join(L.repo, 'diskcache')
    while tb is not None:
        if tb.tb_frame.f_code.co_filename.startswith(root):
            return True
        tb = tb.tb_next
    return False


class ObResult:
    def __init__(self, **kw):
        self.__dict__.update(kw)


def model_values(m):
    vals = {}
    for d in m.decls():
        if d.arity() != 0:
            continue
        v = m[d]
        if z3.is_int_value(v):
            vals[d.name()] = v.as_long()
        elif z3.is_rational_value(v):
            vals[d.name()] = Fraction(v.numerator_as_long(), v.denominator_as_long())
        elif z3.is_true(v) or z3.is_false(v):
            vals[d.name()] = bool(z3.is_true(v))
        elif z3.is_algebraic_value(v):
            vals[d.name()] = Fraction(str(v.approx(10).as_fraction()))
    return vals


def minimise(ex, okz, budget_s=20):
    """re-solve  path-condition AND NOT ok  with small, float-exact values (integers bounded, reals dyadic)"""
    s = ex.solver
    t0 = time.time()
    best = None
    consts = {}
    for a in list(s.assertions()) + [okz]:
        stack = [a]
        seen = set()
        while stack:
            e = stack.pop()
            if e.get_id() in seen:
                continue
            seen.add(e.get_id())
            if z3.is_const(e) and e.decl().kind() == z3.Z3_OP_UNINTERPRETED:
                consts[e.decl().name()] = e
            stack.extend(e.children())
    # SQLite resolves ORDER BY ties in index (= rowid) order: prefer a model whose tie-break ranks agree
    tie_pref = [consts[n] == consts[n[:-3] + '.rowid'] for n in consts if n.endswith('.tb') and n[:-3] + '.rowid' in consts]
    for k in (3, 6, 12, 24, 40, 3, 6, 12, 24, 40):
        if time.time() - t0 > budget_s:
            break
        s.push()
        s.add(z3.Not(okz))
        if tie_pref:
            s.add(*tie_pref)
        for name, c in consts.items():
            if c.sort().kind() == z3.Z3_INT_SORT:
                s.add(c >= -2 ** k, c <= 2 ** k)
            elif c.sort().kind() == z3.Z3_REAL_SORT:
                s.add(c >= -2 ** k, c <= 2 ** k, z3.IsInt(c * 8))
        s.set('timeout', 5000)
        r = s.check()
        m = s.model() if r == z3.sat else None
        s.pop()
        s.set('timeout', 4294967295)
        if m is not None:
            best = m
            break
        if k == 40:
            tie_pref = []
    return best


def run(ob, L, budget_s=300, max_paths=None, page=1, batch=1, replay=True, label=''):
    """ob(w) -> (formula, info) on a world w.  Returns ObResult."""
    t0 = time.time()
    last = {}

    def fn():
        w = env.World(L, page=page, batch=batch)
        last['w'] = w
        try:
            return ob(w)
        except (zpath.PathEnd, zpath.Inconclusive, env.Crash):
            raise
        except Exception as e:
            # an exception escaping from the code under test is a failed obligation; one raised by the
            # scaffolding itself (no frame of the loaded diskcache modules on the stack) is a harness error
            if not _from_code_under_test(e, L):
                raise HarnessBug('%s: %s\n%s' % (type(e).__name__, e, traceback.format_exc(limit=6)))
            return False, {'clauses': [('unexpected exception: %s: %s' % (type(e).__name__, e), False)],
                           'traceback': traceback.format_exc(limit=8)}

    ex = Explorer(budget_s=budget_s, max_paths=max_paths, sample_vars=None)
    try:
        r = ex.run(fn)
    except (Exception, HarnessBug) as e:
        return ObResult(status='error', detail='%s: %s' % (type(e).__name__, e), traceback=traceback.format_exc(), wall=time.time() - t0,
                        stats=ex.stats.as_dict(), flags=ex.flags)
    res = ObResult(status=r.status, stats=r.stats.as_dict(), flags=r.flags, wall=time.time() - t0, detail=r.info.get('reason', ''), cex=None)
    res.nontrivial = ex.nontrivial_paths
    res.samples = ex.samples
    if r.status == 'cex':
        clauses = r.info.get('clauses', [])
        failed = []
        for lab, f in clauses:
            v = r.model.eval(sx.zB(f), model_completion=True)
            if not z3.is_true(v):
                failed.append(lab)
        okz = sx.zB(sx.AndL(f for _, f in clauses)) if clauses else z3.BoolVal(False)
        m = None
        try:
            m = minimise(ex, okz)
        except Exception:
            m = None
        m = m or r.model
        vals = model_values(m)
        res.cex = {'values': {k: (str(v) if isinstance(v, Fraction) else v) for k, v in vals.items()}, 'failed_clauses': failed,
                   'events': [list(e) for e in last['w'].log[-40:]] if 'w' in last else [], 'traceback': r.info.get('traceback')}
        if replay:
            res.replay = replay_real(ob, L, vals, page, batch)
    return res


def replay_real(ob, L, vals, page=1, batch=1):
    """re-execute the obligation with concrete values against the real stack; returns dict(reproduced=..., failed=[...])"""
    Ctx.cur = None
    w = realenv.RealWorld(L, vals, page=page, batch=batch)
    try:
        try:
            out = ob(w)
        except (env.Crash, zpath.PathEnd) as e:
            return {'reproduced': False, 'error': 'replay aborted: %r' % (e,)}
        except Exception as e:
            if not _from_code_under_test(e, L):
                return {'reproduced': False, 'error': 'harness exception during replay: %s: %s' % (type(e).__name__, e), 'traceback': traceback.format_exc(limit=8)}
            return {'reproduced': True, 'failed': ['unexpected exception: %s: %s' % (type(e).__name__, e)], 'traceback': traceback.format_exc(limit=8)}
        f, info = out if isinstance(out, tuple) else (out, {})
        failed = []
        for lab, c in info.get('clauses', []):
            v = sx.simp(c) if sx.isz(c) else c
            if v is not True:
                failed.append(lab if v is False else lab + ' (non-ground)')
        return {'reproduced': bool(failed), 'failed': failed}
    finally:
        w.cleanup()
        # re-bind the seams to nothing in particular: the next model World re-installs them
