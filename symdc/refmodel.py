"""Functional reference dictionary over snapshots (used where two calls must be composed: linearizability
of overlapping operations, Deque/Index/recipes oracles).  No lazy culling (cull_limit = 0) and no expiry
ties: callers assume them away.  Every function returns (table', result)."""
from . import sx
from .sx import And, Or, Not, Implies, IfB, IfI, IfR, EqI, NeI, EqR, NeR, LtR, LeR, AddR, SubR, Count, AndL, OrL, simp, isz
from .sqlmodel import Cell, CNULL, NULL, INT, REAL, TEXT, BLOB, cell_eq, cell_same, ite_cell
from .state import Item, Table, same_cols, CACHE_COLS

MISS = 'MISS'


class Res:
    """a symbolic result: ok flag (False = the operation reports a miss / raises KeyError) and a value cell"""

    def __init__(self, ok, cell=CNULL):
        self.ok, self.cell = ok, cell


def copy_table(T):
    return Table([Item(it.present, dict(it.c)) for it in T.items], dict(T.settings))


def max_rowid(T):
    m = 0
    for it in T.items:
        if it.present is False:
            continue
        m = IfR(And(it.present, LtR(m, it.c['rowid'].num)), it.c['rowid'].num, m)
    return m


def is_live(it, now):
    e = it.c['expire_time']
    return Or(EqI(e.cls, NULL), LtR(now, e.num))


def matches(it, kc, rc):
    return And(it.present, cell_eq(it.c['key'], kc), cell_eq(it.c['raw'], rc))


def upsert(T, kc, rc, cols, cond=True):
    """set semantics: replace in place (position kept) or append; only when cond"""
    T2 = copy_table(T)
    found = False
    for it in T2.items:
        if it.present is False:
            continue
        m = And(matches(it, kc, rc), cond)
        found = Or(found, matches(it, kc, rc))
        for c, v in cols.items():
            it.c[c] = ite_cell(m, v, it.c[c])
    new = {c: CNULL for c in CACHE_COLS}
    new.update(cols)
    new['key'], new['raw'] = kc, rc
    new['rowid'] = Cell(INT, AddR(max_rowid(T), 1))
    T2.items.append(Item(simp(And(cond, Not(found))), new))
    return T2


def written_cols(value_cell, now, expire_cell=CNULL, tag_cell=CNULL):
    return dict(store_time=Cell(REAL, now), access_time=Cell(REAL, now), access_count=Cell(INT, 0), expire_time=expire_cell, tag=tag_cell,
                size=Cell(INT, 0), mode=Cell(INT, 1), filename=CNULL, value=value_cell)


def r_set(T, kc, rc, value_cell, now, expire_cell=CNULL, tag_cell=CNULL):
    return upsert(T, kc, rc, written_cols(value_cell, now, expire_cell, tag_cell)), Res(True, Cell(INT, 1))


def r_add(T, kc, rc, value_cell, now, expire_cell=CNULL, tag_cell=CNULL):
    old = T.lookup(kc, rc)
    live = And(old.present, is_live(old, now))
    return upsert(T, kc, rc, written_cols(value_cell, now, expire_cell, tag_cell), cond=Not(live)), Res(Not(live), Cell(INT, 1))


def r_get(T, kc, rc, now):
    old = T.lookup(kc, rc)
    live = And(old.present, is_live(old, now))
    return T, Res(live, old.c['value'])


def r_contains(T, kc, rc, now):
    old = T.lookup(kc, rc)
    return T, Res(And(old.present, is_live(old, now)), Cell(INT, 1))


def remove(T, kc, rc, cond):
    T2 = copy_table(T)
    for it in T2.items:
        if it.present is False:
            continue
        it.present = simp(And(it.present, Not(And(matches(it, kc, rc), cond))))
    return T2


def r_pop(T, kc, rc, now):
    old = T.lookup(kc, rc)
    live = And(old.present, is_live(old, now))
    return remove(T, kc, rc, live), Res(live, old.c['value'])


def r_delete(T, kc, rc, now):
    old = T.lookup(kc, rc)
    live = And(old.present, is_live(old, now))
    return remove(T, kc, rc, live), Res(live, Cell(INT, 1))


def r_touch(T, kc, rc, now, expire_cell):
    old = T.lookup(kc, rc)
    live = And(old.present, is_live(old, now))
    T2 = copy_table(T)
    for it in T2.items:
        if it.present is False:
            continue
        m = And(matches(it, kc, rc), live)
        it.c['expire_time'] = ite_cell(m, expire_cell, it.c['expire_time'])
    return T2, Res(live, Cell(INT, 1))


def r_incr(T, kc, rc, delta, default, now, policy='least-recently-stored'):
    """default: python None (=> KeyError on a miss) or a Real-context value"""
    old = T.lookup(kc, rc)
    live = And(old.present, is_live(old, now))
    T2 = copy_table(T)
    for it in T2.items:
        if it.present is False:
            continue
        m = And(matches(it, kc, rc), live)
        it.c['value'] = ite_cell(m, Cell(INT, AddR(it.c['value'].num, delta)), it.c['value'])
        it.c['store_time'] = ite_cell(m, Cell(REAL, now), it.c['store_time'])
        if policy == 'least-recently-used':
            it.c['access_time'] = ite_cell(m, Cell(REAL, now), it.c['access_time'])
        if policy == 'least-frequently-used':
            it.c['access_count'] = ite_cell(m, Cell(INT, AddR(it.c['access_count'].num, 1)), it.c['access_count'])
    if default is None:
        return T2, Res(live, Cell(INT, AddR(old.c['value'].num, delta)))
    T3 = upsert(T2, kc, rc, written_cols(Cell(INT, AddR(default, delta)), now), cond=Not(live))
    return T3, Res(True, Cell(INT, IfR(live, AddR(old.c['value'].num, delta), AddR(default, delta))))


def r_len(T):
    return T, Res(True, Cell(INT, T.count()))


def table_eq(Ta, Tb, cols=CACHE_COLS):
    conj = []
    for it in Ta.items:
        if it.present is False:
            continue
        p = Tb.lookup(it.c['key'], it.c['raw'])
        conj.append(Implies(it.present, And(p.present, same_cols(p, it, cols))))
    conj.append(EqI(Ta.count(), Tb.count()))
    return AndL(conj)
