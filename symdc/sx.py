"""Smart constructors: z3 terms with Python-side constant folding.

A value is either a Python constant (bool / int / Fraction) or a z3 ExprRef.  Folding on the Python
side keeps the (slow) z3py term construction for the genuinely symbolic parts only; most cells of
the relational model (Settings rows, storage classes, literals) are concrete on every path.
Three contexts: B (Bool), I (Int), R (Real)."""
import z3
from fractions import Fraction

ExprRef = z3.ExprRef


def isz(x):
    return isinstance(x, ExprRef)


def zB(x):
    return x if isinstance(x, ExprRef) else z3.BoolVal(bool(x))


def zI(x):
    if isinstance(x, ExprRef):
        return x
    return z3.IntVal(int(x))


REAL_MODE = False  # False: every number (incl. times) is an Int term -- pure LIA, which z3 decides orders of
                   # magnitude faster than the mixed Int/Real encoding (measured: 0.05 s vs > 60 s on one verdict query)


class NonInteger(Exception):
    pass


def zR(x):
    """lift into the numeric sort of "real" quantities: Int in integer-time mode, Real in real mode"""
    if not REAL_MODE:
        if isinstance(x, ExprRef):
            if x.sort().kind() != z3.Z3_INT_SORT:
                raise NonInteger('Real-sorted term in integer-time mode: %s' % x)
            return x
        if isinstance(x, Fraction):
            if x.denominator != 1:
                raise NonInteger('non-integer constant %s in integer-time mode' % x)
            return z3.IntVal(x.numerator)
        if isinstance(x, float):
            if x != int(x):
                raise NonInteger('non-integer constant %s in integer-time mode' % x)
            return z3.IntVal(int(x))
        return z3.IntVal(int(x))
    if isinstance(x, ExprRef):
        if x.sort().kind() == z3.Z3_INT_SORT:
            return z3.ToReal(x)
        return x
    if isinstance(x, Fraction):
        if x.denominator == 1:
            return z3.RealVal(x.numerator)
        return z3.RealVal(str(x))
    if isinstance(x, float):
        return z3.RealVal(str(Fraction(x)))
    return z3.RealVal(int(x))


def _fold(x):
    """python constant for ground numerals / booleans, else the term"""
    if isinstance(x, ExprRef):
        if z3.is_true(x):
            return True
        if z3.is_false(x):
            return False
        if z3.is_int_value(x):
            return x.as_long()
        if z3.is_rational_value(x):
            n, d = x.numerator_as_long(), x.denominator_as_long()
            return n if d == 1 else Fraction(n, d)
    return x


def simp(x):
    """simplify + fold"""
    if isinstance(x, ExprRef):
        return _fold(z3.simplify(x))
    return x


# ---- Bool
def And(*xs):
    out = []
    for x in xs:
        if x is True:
            continue
        if x is False:
            return False
        out.append(x)
    if not out:
        return True
    if len(out) == 1:
        return out[0]
    return z3.And(*out)


def Or(*xs):
    out = []
    for x in xs:
        if x is False:
            continue
        if x is True:
            return True
        out.append(x)
    if not out:
        return False
    if len(out) == 1:
        return out[0]
    return z3.Or(*out)


def AndL(xs):
    return And(*list(xs))


def OrL(xs):
    return Or(*list(xs))


def Not(x):
    if x is True:
        return False
    if x is False:
        return True
    return z3.Not(x)


def Implies(a, b):
    if a is False or b is True:
        return True
    if a is True:
        return b
    if b is False:
        return Not(a)
    return z3.Implies(a, b)


def IfB(c, a, b):
    if c is True:
        return a
    if c is False:
        return b
    if a is b:
        return a
    if a is True and b is False:
        return c
    if a is False and b is True:
        return Not(c)
    return z3.If(c, zB(a), zB(b))


def EqB(a, b):
    if not isz(a) and not isz(b):
        return a == b
    if a is True:
        return b
    if b is True:
        return a
    if a is False:
        return Not(b)
    if b is False:
        return Not(a)
    return a == b


# ---- numeric helpers
def _num_py(x):
    return not isinstance(x, ExprRef)


def _same(a, b):
    if a is b:
        return True
    if _num_py(a) and _num_py(b):
        return a == b
    return False


def IfI(c, a, b):
    if c is True:
        return a
    if c is False:
        return b
    if _same(a, b):
        return a
    return z3.If(c, zI(a), zI(b))


def IfR(c, a, b):
    if c is True:
        return a
    if c is False:
        return b
    if _same(a, b):
        return a
    return z3.If(c, zR(a), zR(b))


def _cmp(a, b, op, lift):
    if _num_py(a) and _num_py(b):
        return op(a, b)
    return op(lift(a), lift(b))


def EqI(a, b):
    return _cmp(a, b, lambda x, y: x == y, zI)


def NeI(a, b):
    return _cmp(a, b, lambda x, y: x != y, zI)


def LtI(a, b):
    return _cmp(a, b, lambda x, y: x < y, zI)


def LeI(a, b):
    return _cmp(a, b, lambda x, y: x <= y, zI)


def EqR(a, b):
    if a is b:
        return True
    return _cmp(a, b, lambda x, y: x == y, zR)


def NeR(a, b):
    return _cmp(a, b, lambda x, y: x != y, zR)


def LtR(a, b):
    return _cmp(a, b, lambda x, y: x < y, zR)


def LeR(a, b):
    return _cmp(a, b, lambda x, y: x <= y, zR)


def AddI(a, b):
    if _num_py(a) and _num_py(b):
        return a + b
    if _num_py(a) and a == 0:
        return b
    if _num_py(b) and b == 0:
        return a
    return zI(a) + zI(b)


def SubI(a, b):
    if _num_py(a) and _num_py(b):
        return a - b
    if _num_py(b) and b == 0:
        return a
    return zI(a) - zI(b)


def AddR(a, b):
    if _num_py(a) and _num_py(b):
        return a + b
    if _num_py(a) and a == 0:
        return b
    if _num_py(b) and b == 0:
        return a
    return zR(a) + zR(b)


def SubR(a, b):
    if _num_py(a) and _num_py(b):
        return a - b
    if _num_py(b) and b == 0:
        return a
    return zR(a) - zR(b)


def MulR(a, b):
    if _num_py(a) and _num_py(b):
        return a * b
    if _num_py(a):
        return a * zR(b)
    if _num_py(b):
        return zR(a) * b
    return zR(a) * zR(b)


def NegR(a):
    if _num_py(a):
        return -a
    return -a


def SumI(xs):
    c = 0
    out = []
    for x in xs:
        if _num_py(x):
            c += x
        else:
            out.append(x)
    if not out:
        return c
    if c != 0:
        out.append(z3.IntVal(c))
    if len(out) == 1:
        return out[0]
    return z3.Sum(out)


def SumR(xs):
    c = 0
    out = []
    for x in xs:
        if _num_py(x):
            c += x
        else:
            out.append(zR(x))
    if not out:
        return c
    if c != 0:
        out.append(zR(c))
    if len(out) == 1:
        return out[0]
    return z3.Sum(out)


def Count(conds):
    return SumI(IfI(c, 1, 0) for c in conds)


def ToInt(x):
    """Real-context value -> Int-context value (floor)"""
    if _num_py(x):
        return x.numerator // x.denominator if isinstance(x, Fraction) else int(x)
    if x.sort().kind() == z3.Z3_INT_SORT:
        return x
    if z3.is_app_of(x, z3.Z3_OP_TO_REAL):
        return x.arg(0)
    return z3.ToInt(x)


def IsInt(x):
    if _num_py(x):
        return not isinstance(x, Fraction) or x.denominator == 1
    if x.sort().kind() == z3.Z3_INT_SORT:
        return True
    if z3.is_app_of(x, z3.Z3_OP_TO_REAL):
        return True
    return z3.IsInt(x)


def py_frac(x):
    """ground Real-context value as Fraction (or None)"""
    x = simp(x)
    if isinstance(x, ExprRef):
        return None
    return Fraction(x)
