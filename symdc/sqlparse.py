"""Recursive-descent parser for the SQL subset that diskcache sends.  A statement outside the
grammar raises Unsupported (the check then reports *inconclusive*, naming the statement)."""
import re


class Unsupported(Exception):
    pass


TOKEN_RE = re.compile(r'''
    (?P<ws>\s+)
  | (?P<tok>⟦\d+⟧)
  | (?P<num>\d+\.\d*(?:[eE][-+]?\d+)?|\.\d+(?:[eE][-+]?\d+)?|\d+(?:[eE][-+]?\d+)?)
  | (?P<str>'(?:[^']|'')*')
  | (?P<dq>"(?:[^"]|"")*")
  | (?P<id>[A-Za-z_][A-Za-z_0-9]*)
  | (?P<op><>|!=|<=|>=|==|\|\||[-+*/(),=<>?;.])
''', re.X)

KEYWORDS = {'SELECT', 'FROM', 'WHERE', 'ORDER', 'BY', 'ASC', 'DESC', 'LIMIT', 'AND', 'OR', 'NOT', 'IS', 'NULL',
            'IN', 'INSERT', 'INTO', 'VALUES', 'REPLACE', 'IGNORE', 'UPDATE', 'SET', 'DELETE', 'BEGIN', 'IMMEDIATE',
            'COMMIT', 'ROLLBACK', 'PRAGMA', 'VACUUM', 'CREATE', 'TABLE', 'INDEX', 'UNIQUE', 'IF', 'EXISTS', 'ON',
            'DROP', 'TRIGGER', 'AFTER', 'FOR', 'EACH', 'ROW', 'END', 'DEFAULT', 'PRIMARY', 'KEY', 'EXCLUSIVE',
            'DEFERRED', 'TRANSACTION', 'BETWEEN', 'WHEN'}


def tokenize(sql):
    out = []
    pos = 0
    while pos < len(sql):
        m = TOKEN_RE.match(sql, pos)
        if not m:
            raise Unsupported('cannot tokenize at %d: %r' % (pos, sql))
        pos = m.end()
        kind = m.lastgroup
        text = m.group()
        if kind == 'ws':
            continue
        if kind == 'id' and text.upper() in KEYWORDS:
            out.append(('kw', text.upper()))
        else:
            out.append((kind, text))
    return out


class P:
    def __init__(self, sql):
        self.sql = sql
        self.toks = tokenize(sql)
        self.i = 0
        self.nparams = 0

    def peek(self, k=0):
        j = self.i + k
        return self.toks[j] if j < len(self.toks) else ('eof', '')

    def next(self):
        t = self.peek()
        self.i += 1
        return t

    def at_kw(self, *kws):
        t = self.peek()
        return t[0] == 'kw' and t[1] in kws

    def at_op(self, *ops):
        t = self.peek()
        return t[0] == 'op' and t[1] in ops

    def eat_kw(self, kw):
        if self.at_kw(kw):
            self.i += 1
            return True
        return False

    def eat_op(self, op):
        if self.at_op(op):
            self.i += 1
            return True
        return False

    def expect_kw(self, kw):
        if not self.eat_kw(kw):
            raise Unsupported('expected %s at token %d in %r' % (kw, self.i, self.sql))

    def expect_op(self, op):
        if not self.eat_op(op):
            raise Unsupported('expected %r at token %d in %r' % (op, self.i, self.sql))

    def ident(self):
        t = self.next()
        if t[0] == 'id':
            return t[1]
        if t[0] == 'dq':
            return t[1][1:-1]
        if t[0] == 'kw' and t[1] in ('KEY', 'REPLACE'):  # column named "key"
            return t[1].lower()
        raise Unsupported('expected identifier, got %r in %r' % (t, self.sql))

    # ---- expressions
    def expr(self):
        return self.or_()

    def or_(self):
        e = self.and_()
        while self.eat_kw('OR'):
            e = ('or', e, self.and_())
        return e

    def and_(self):
        e = self.not_()
        while self.eat_kw('AND'):
            e = ('and', e, self.not_())
        return e

    def not_(self):
        if self.eat_kw('NOT'):
            return ('not', self.not_())
        return self.cmp()

    def cmp(self):
        a = self.add()
        while True:
            if self.at_op('=', '==', '!=', '<>', '<', '<=', '>', '>='):
                op = self.next()[1]
                op = {'==': '=', '<>': '!='}.get(op, op)
                b = self.add()
                a = ('cmp', op, a, b)
            elif self.at_kw('BETWEEN') or (self.at_kw('NOT') and self.peek(1) == ('kw', 'BETWEEN')):
                neg = self.eat_kw('NOT')
                self.expect_kw('BETWEEN')
                lo = self.add()
                self.expect_kw('AND')
                hi = self.add()
                e = ('and', ('cmp', '>=', a, lo), ('cmp', '<=', a, hi))
                a = ('not', e) if neg else e
            elif self.at_kw('IS'):
                self.next()
                neg = self.eat_kw('NOT')
                if self.eat_kw('NULL'):
                    a = ('isnull', a, neg)
                else:
                    b = self.add()
                    a = ('is', a, b, neg)
            elif self.at_kw('IN') or (self.at_kw('NOT') and self.peek(1) == ('kw', 'IN')):
                neg = self.eat_kw('NOT')
                self.expect_kw('IN')
                self.expect_op('(')
                if self.at_kw('SELECT'):
                    sub = self.select()
                    self.expect_op(')')
                    a = ('in_select', a, sub, neg)
                else:
                    items = []
                    if not self.at_op(')'):
                        items.append(self.expr())
                        while self.eat_op(','):
                            items.append(self.expr())
                    self.expect_op(')')
                    a = ('in_list', a, items, neg)
            else:
                return a

    def add(self):
        e = self.mul()
        while self.at_op('+', '-'):
            op = self.next()[1]
            e = ('arith', op, e, self.mul())
        return e

    def mul(self):
        e = self.unary()
        while self.at_op('*', '/'):
            op = self.next()[1]
            e = ('arith', op, e, self.unary())
        return e

    def unary(self):
        if self.eat_op('-'):
            return ('neg', self.unary())
        if self.eat_op('+'):
            return self.unary()
        return self.primary()

    def primary(self):
        t = self.next()
        if t == ('op', '?'):
            self.nparams += 1
            return ('param', self.nparams - 1)
        if t[0] == 'tok':
            return ('token', int(t[1][1:-1]))
        if t[0] == 'num':
            if re.fullmatch(r'\d+', t[1]):
                return ('lit', int(t[1]))
            return ('lit', float(t[1]))
        if t[0] == 'str':
            return ('lit', t[1][1:-1].replace("''", "'"))
        if t[0] == 'dq':
            # double-quoted: identifier if it names a column, else a string literal (SQLite legacy rule)
            return ('dq', t[1][1:-1])
        if t == ('kw', 'NULL'):
            return ('lit', None)
        if t == ('op', '('):
            e = self.expr()
            self.expect_op(')')
            return e
        if t[0] == 'id' or t == ('kw', 'KEY') or t == ('kw', 'REPLACE'):
            name = t[1] if t[0] == 'id' else t[1].lower()
            if self.at_op('('):
                self.next()
                args = []
                if self.eat_op('*'):
                    args.append(('star',))
                elif not self.at_op(')'):
                    args.append(self.expr())
                    while self.eat_op(','):
                        args.append(self.expr())
                self.expect_op(')')
                return ('func', name.upper(), args)
            if self.at_op('.'):
                self.next()
                col = self.ident()
                return ('col', name.upper() if name.upper() in ('NEW', 'OLD') else name, col)
            return ('col', None, name)
        raise Unsupported('unexpected token %r in %r' % (t, self.sql))

    # ---- statements
    def select(self):
        self.expect_kw('SELECT')
        items = []
        if self.eat_op('*'):
            items.append(('star',))
        else:
            items.append(self.expr())
        while self.eat_op(','):
            items.append(self.expr())
        self.expect_kw('FROM')
        table = self.ident()
        where = None
        order = []
        limit = None
        if self.eat_kw('WHERE'):
            where = self.expr()
        if self.eat_kw('ORDER'):
            self.expect_kw('BY')
            while True:
                e = self.expr()
                desc = False
                if self.eat_kw('DESC'):
                    desc = True
                else:
                    self.eat_kw('ASC')
                order.append((e, desc))
                if not self.eat_op(','):
                    break
        if self.eat_kw('LIMIT'):
            limit = self.expr()
        return ('select', items, table, where, order, limit)

    def statement(self):
        if self.at_kw('SELECT'):
            s = self.select()
        elif self.eat_kw('INSERT'):
            conflict = None
            if self.eat_kw('OR'):
                t = self.next()
                if t not in (('kw', 'REPLACE'), ('kw', 'IGNORE')):
                    raise Unsupported('INSERT OR %r' % (t,))
                conflict = t[1]
            self.expect_kw('INTO')
            table = self.ident()
            cols = None
            if self.eat_op('('):
                cols = [self.ident()]
                while self.eat_op(','):
                    cols.append(self.ident())
                self.expect_op(')')
            self.expect_kw('VALUES')
            self.expect_op('(')
            vals = [self.expr()]
            while self.eat_op(','):
                vals.append(self.expr())
            self.expect_op(')')
            s = ('insert', conflict, table, cols, vals)
        elif self.eat_kw('UPDATE'):
            table = self.ident()
            self.expect_kw('SET')
            sets = []
            while True:
                c = self.ident()
                self.expect_op('=')
                sets.append((c, self.expr()))
                if not self.eat_op(','):
                    break
            where = self.expr() if self.eat_kw('WHERE') else None
            s = ('update', table, sets, where)
        elif self.eat_kw('DELETE'):
            self.expect_kw('FROM')
            table = self.ident()
            where = self.expr() if self.eat_kw('WHERE') else None
            s = ('delete', table, where)
        elif self.eat_kw('BEGIN'):
            mode = 'DEFERRED'
            if self.at_kw('IMMEDIATE', 'EXCLUSIVE', 'DEFERRED'):
                mode = self.next()[1]
            self.eat_kw('TRANSACTION')
            s = ('begin', mode)
        elif self.eat_kw('COMMIT') or self.eat_kw('END'):
            s = ('commit',)
        elif self.eat_kw('ROLLBACK'):
            s = ('rollback',)
        elif self.eat_kw('VACUUM'):
            s = ('vacuum',)
        elif self.eat_kw('PRAGMA'):
            name = self.ident()
            val = None
            if self.eat_op('='):
                t = self.next()
                if t[0] == 'num':
                    val = int(t[1]) if re.fullmatch(r'\d+', t[1]) else float(t[1])
                elif t == ('op', '-'):
                    t2 = self.next()
                    val = -int(t2[1])
                elif t[0] in ('id', 'str', 'dq', 'kw'):
                    val = t[1].strip('\'"')
                else:
                    raise Unsupported('PRAGMA value %r' % (t,))
            s = ('pragma', name, val)
        elif self.eat_kw('DROP'):
            self.expect_kw('INDEX')
            if self.eat_kw('IF'):
                self.expect_kw('EXISTS')
            s = ('drop_index', self.ident())
        elif self.eat_kw('CREATE'):
            s = self.create()
        else:
            raise Unsupported('statement not in the modelled subset: %r' % self.sql)
        self.eat_op(';')
        if self.peek()[0] != 'eof':
            raise Unsupported('trailing tokens in %r' % self.sql)
        return s

    def create(self):
        unique = self.eat_kw('UNIQUE')
        if self.eat_kw('INDEX'):
            if self.eat_kw('IF'):
                self.expect_kw('NOT')
                self.expect_kw('EXISTS')
            name = self.ident()
            self.expect_kw('ON')
            table = self.ident()
            self.expect_op('(')
            cols = [self.ident()]
            while self.eat_op(','):
                cols.append(self.ident())
            self.expect_op(')')
            where = self.expr() if self.eat_kw('WHERE') else None
            return ('create_index', name, table, cols, unique, where)
        if unique:
            raise Unsupported(self.sql)
        if self.eat_kw('TABLE'):
            if self.eat_kw('IF'):
                self.expect_kw('NOT')
                self.expect_kw('EXISTS')
            name = self.ident()
            self.expect_op('(')
            cols = []
            while True:
                cname = self.ident()
                ctype = None
                attrs = []
                while not self.at_op(',', ')'):
                    t = self.next()
                    if t[0] == 'eof':
                        raise Unsupported(self.sql)
                    if t[0] == 'id' and ctype is None and not attrs:
                        ctype = t[1].upper()
                    else:
                        attrs.append(t[1])
                cols.append((cname, ctype, attrs))
                if not self.eat_op(','):
                    break
            self.expect_op(')')
            return ('create_table', name, cols)
        if self.eat_kw('TRIGGER'):
            if self.eat_kw('IF'):
                self.expect_kw('NOT')
                self.expect_kw('EXISTS')
            name = self.ident()
            self.expect_kw('AFTER')
            t = self.next()
            if t not in (('kw', 'INSERT'), ('kw', 'UPDATE'), ('kw', 'DELETE')):
                raise Unsupported(self.sql)
            event = t[1]
            self.expect_kw('ON')
            table = self.ident()
            self.expect_kw('FOR')
            self.expect_kw('EACH')
            self.expect_kw('ROW')
            when = self.expr() if self.eat_kw('WHEN') else None
            self.expect_kw('BEGIN')
            body = []
            while not self.at_kw('END'):
                self.expect_kw('UPDATE')
                tab = self.ident()
                self.expect_kw('SET')
                sets = []
                while True:
                    c = self.ident()
                    self.expect_op('=')
                    sets.append((c, self.expr()))
                    if not self.eat_op(','):
                        break
                where = self.expr() if self.eat_kw('WHERE') else None
                self.expect_op(';')
                body.append(('update', tab, sets, where))
            self.expect_kw('END')
            return ('create_trigger', name, event, table, body, when)
        raise Unsupported(self.sql)


_CACHE = {}


def parse(sql):
    r = _CACHE.get(sql)
    if r is None:
        p = P(sql)
        st = p.statement()
        r = (st, p.nparams)
        _CACHE[sql] = r
    return r
