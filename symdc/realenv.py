"""Real backend: the same seams bound to the real sqlite3 / file system / a recorded clock, with the
same event counting as the model backend, so that a solver counterexample (concrete values of the
obligation's named inputs + directives) is re-executed against the unmodified library on real
SQLite and real files.  Only a failing real-stack replay is reported as VIOLATION."""
import os
import re
import shutil
import sqlite3
import tempfile
import types
import threading
import z3
from fractions import Fraction

from . import zpath, sqlmodel, sx, env, state
from .zpath import I, R, B, Ctx
from .sqlmodel import Cell, NULL, INT, REAL, TEXT, BLOB, Interner
from .state import Item, Table, CACHE_COLS


def conv(v):
    """ground proxy -> plain Python value (at the boundary to the real components)"""
    if isinstance(v, I):
        return sx.simp(v.z)
    if isinstance(v, R):
        f = sx.simp(v.z)
        return float(Fraction(f))
    if isinstance(v, B):
        return bool(v)
    return v


TOK = re.compile('⟦(\\d+)⟧')


class FakeCursor:
    def __init__(self, rows):
        self.rows = rows

    def fetchall(self):
        return self.rows


class RealCon:
    def __init__(self, w, con):
        self.w, self.con = w, con
        self.in_txn = False

    def execute(self, sql, params=()):
        w = self.w
        w.event('sql', sql, self)
        s = sql.strip().upper()
        if getattr(w, 'busy_all_hook', None) is not None and w.busy_all_hook(self, sql):
            raise sqlite3.OperationalError('database is locked')
        if s.startswith('BEGIN') and w.busy_hook is not None and w.busy_hook(self):
            raise sqlite3.OperationalError('database is locked')
        if w.busy_hook is not None and not self.con.in_transaction and s.split(None, 1)[0] in ('INSERT', 'UPDATE', 'DELETE', 'REPLACE', 'CREATE', 'DROP') \
                and w.busy_hook(self):
            # a write outside a transaction needs the write lock as well (same rule as in the model)
            raise sqlite3.OperationalError('database is locked')
        if s == 'PRAGMA PAGE_COUNT' and w.page_count_fn is not None:
            return FakeCursor([(conv(w.page_count_fn()),)])

        def sub(m):
            z, isfloat = zpath.TOKENS[int(m.group(1))]
            return repr(conv(R(z) if isfloat else I(z)))
        sql2 = TOK.sub(sub, sql)
        try:
            r = self.con.execute(sql2, [conv(p) for p in params])
        except sqlite3.OperationalError as e:
            if s.startswith('BEGIN') and 'locked' in str(e):
                w.spin()
            raise
        if s in ('COMMIT', 'ROLLBACK'):
            w.event('sql', 'after ' + s, self)
        return r

    def close(self):
        self.con.close()


class RealWorld(env.BaseWorld):
    is_real = True

    def __init__(self, L, values, page=None, batch=None):
        self.values = values  # name -> python value (int / Fraction / bool)
        self.root = tempfile.mkdtemp(prefix='verif-replay-')
        self.dir = os.path.join(self.root, 'm')
        self.interner = Interner()
        self.page_count_fn = None
        self.busy_hook = None
        self.handles = []
        super().__init__(L, page, batch)

    def cleanup(self):
        for h in self.handles:
            try:
                h.close()
            except Exception:
                pass
        shutil.rmtree(self.root, ignore_errors=True)

    # ---- inputs
    def _val(self, name, default=0):
        return self.values.get(name, default)

    def int(self, name, lo=None, hi=None):
        return I(z3.IntVal(int(self._val(name))))

    def real(self, name, lo=None, hi=None):
        return R(sx.zR(Fraction(self._val(name))))

    def bool(self, name):
        return B(z3.BoolVal(bool(self._val(name, False))))

    # ---- clock: recorded readings t0, t1, ... (non-decreasing); beyond the record: the last one
    def time(self):
        import sys as _sys
        if _sys._getframe(1).f_code.co_name in ('_execute_with_retry', 'reset'):
            # the 60 s deadlines of Cache._sql_retry and of the PRAGMA loop in Cache.reset: not a reading of the cache's clock (the wait is modelled by outcome, not by duration)
            return 0.0
        if self.clock_fn is not None:
            return self.clock_fn()
        k = len(self.times)
        name = 't%d' % k
        if name in self.values:
            v = Fraction(self.values[name])
        else:
            v = self.times_f[-1] if self.times_f else Fraction(1)
        if self.times_f and v < self.times_f[-1]:
            v = self.times_f[-1]
        self.times_f.append(v)
        self.times.append(sx.zR(v))
        return float(v)

    def sleep(self, d):
        self.sleeps += 1
        if self.sleeps > self.max_sleeps and getattr(self, 'soft_block', False):
            self.sleeps = 0
            raise env.WouldBlock()
        if self.sleeps > self.max_sleeps:
            raise env.Spin('sleep bound')
        self.event('sleep', str(d))

    # ---- seams
    def connect(self, path, timeout=0, isolation_level=None, **kw):
        kw.setdefault('check_same_thread', False)  # the two clients of an Interleaver run in two OS threads (one at a time)
        con = sqlite3.connect(path, timeout=0, isolation_level=isolation_level, **kw)
        rc = RealCon(self, con)
        self.handles.append(rc)
        return rc

    def install(self):
        L = self.L
        w = self
        self.times_f = []
        sq = types.SimpleNamespace(connect=self.connect, OperationalError=sqlite3.OperationalError,
                                   IntegrityError=sqlite3.IntegrityError, InterfaceError=sqlite3.InterfaceError,
                                   ProgrammingError=sqlite3.ProgrammingError, Binary=sqlite3.Binary, Error=sqlite3.Error,
                                   DatabaseError=sqlite3.DatabaseError)
        self.sqlite3 = sq

        def ev_wrap(kind, fn, label):
            def f(*a, **k):
                w.event(kind, label + ':' + (str(a[0]) if a else ''))
                return fn(*[os.fspath(x) if hasattr(x, '__fspath__') else x for x in a], **k)
            return f

        class WFile:
            def __init__(self, f, path):
                self.f, self.path = f, path

            def write(self, chunk):
                w.event('fs', 'write:%s' % self.path)
                return self.f.write(chunk)

            def _ev(self):
                if not getattr(self, '_read_seen', False):  # one event per file object, however the reader chunks it
                    self._read_seen = True
                    w.event('fs', 'read:%s' % self.path)

            def read(self, *a):
                self._ev()
                return self.f.read(*a)

            def readline(self, *a):
                self._ev()
                return self.f.readline(*a)

            def readinto(self, b):
                self._ev()
                return self.f.readinto(b)

            def close(self):
                if not self.f.closed:
                    if 'r' not in self.f.mode:
                        w.event('fs', 'close:%s' % self.path)
                    self.f.close()

            def __enter__(self):
                return self

            def __exit__(self, *a):
                self.close()
                return False

            @property
            def name(self):
                return self.f.name

        def w_open(path, mode='r', *a, **k):
            w.event('fs', 'open:%s:%s' % (mode, path))
            return WFile(open(path, mode, *a, **k), path)

        def w_walk(top, *a, **k):
            w.event('fs', 'scandir:%s' % top)
            return os.walk(top, *a, **k)

        osm = types.SimpleNamespace(
            makedirs=ev_wrap('fs', os.makedirs, 'makedirs'), remove=ev_wrap('fs', os.remove, 'remove'),
            removedirs=ev_wrap('fs', os.removedirs, 'removedirs'), rmdir=ev_wrap('fs', os.rmdir, 'rmdir'),
            walk=w_walk, listdir=ev_wrap('fs', os.listdir, 'listdir'), urandom=(lambda n: env.det_urandom(w, n)), getpid=lambda: w.pid,
            linesep=os.linesep, fspath=os.fspath, sep='/', error=OSError, environ=os.environ)
        opm = types.SimpleNamespace(
            join=os.path.join, split=os.path.split, getsize=ev_wrap('fs', os.path.getsize, 'stat'),
            exists=ev_wrap('fs', os.path.exists, 'stat'), isdir=os.path.isdir, expanduser=os.path.expanduser,
            expandvars=os.path.expandvars, dirname=os.path.dirname, basename=os.path.basename)
        osm.path = opm
        tm = types.SimpleNamespace(time=self.time, sleep=self.sleep, monotonic=self.time)
        th = types.SimpleNamespace(local=lambda: env.Local(w), get_ident=lambda: w.tid, get_native_id=lambda: 70000 + w.tid, Thread=threading.Thread)
        self._bind_modules(sq, w_open, osm, opm, tm, th)
        import tempfile as _tf
        import shutil as _sh
        root = self.root

        def mkdtemp(suffix=None, prefix=None, dir=None):
            return _tf.mkdtemp(suffix=suffix, prefix=prefix, dir=root)
        L.core.tempfile = types.SimpleNamespace(mkdtemp=mkdtemp)
        if getattr(L, 'persistent', None) is not None:
            L.persistent.rmtree = _sh.rmtree
        if getattr(L, 'fanout', None) is not None:
            L.fanout.tempfile = types.SimpleNamespace(mkdtemp=mkdtemp)
            if hasattr(L.fanout, 'shutil'):
                L.fanout.shutil = _sh

    # ---- caches
    def new_cache(self, directory=None, cls_getter=None, **settings):
        cls = (cls_getter or (lambda L: L.core.Cache))(self.L)
        saved = self.clock_fn
        self.clock_fn = lambda: 0.0
        try:
            c = cls(directory or self.dir, **settings)
        finally:
            self.clock_fn = saved
        return c

    def clone_handle(self, obj0):
        import copy
        obj = object.__new__(type(obj0))
        obj.__dict__.update(obj0.__dict__)
        obj._local = env.Local(self)
        obj._disk = copy.copy(obj0._disk)
        obj._txn_id = None
        return obj

    def intern_text(self, s):
        return self.interner.intern(TEXT, s)

    def set_busy_hook(self, cache, fn):
        self.busy_hook = fn

    def set_busy_all_hook(self, cache, fn):
        self.busy_all_hook = fn

    def damage_file(self, cache, rel, deleted, new_size):
        p = os.path.join(cache._directory, rel)
        if not os.path.exists(p):
            return
        if sx.simp(deleted) if sx.isz(deleted) else deleted:
            os.remove(p)
        else:
            with open(p, 'r+b') as f:
                f.truncate(conv(new_size) if isinstance(new_size, (I, R)) else int(sx.simp(new_size)))

    def add_extra(self, cache, rel, exists, size=0, is_dir=False):
        p = os.path.join(cache._directory, rel)
        if is_dir:
            os.makedirs(p, exist_ok=True)
            return
        ex = sx.simp(exists) if sx.isz(exists) else exists
        if ex:
            os.makedirs(os.path.dirname(p), exist_ok=True)
            with open(p, 'wb') as f:
                f.truncate(int(size))

    def bump_counter(self, cache, name, delta):
        con = self.raw_con(cache)
        try:
            d = conv(delta) if isinstance(delta, (I, R)) else int(sx.simp(delta))
            con.execute('UPDATE Settings SET value = value + ? WHERE key = ?', (d, name))
        finally:
            con.close()

    def dir_listing(self, cache):
        out = {}
        for dp, ds, fs in os.walk(cache._directory):
            out[dp] = ([os.path.join(dp, d) for d in ds], [(os.path.join(dp, f), True) for f in fs])
        return out

    def recover(self):
        self.frozen = False
        self.crash_at = None
        self.counting = False

    def set_page_count(self, cache, fn):
        self.page_count_fn = fn

    # ---- state installation / observation
    def py_of(self, cell):
        k = sx.simp(cell.cls)
        n = sx.simp(cell.num)
        if k == NULL:
            return None
        if k == INT:
            return int(n)
        if k == REAL:
            return float(Fraction(n))
        return self.interner.lookup(k, Fraction(n))

    def cell_of(self, v):
        if v is None:
            return sqlmodel.CNULL
        if isinstance(v, bool):
            return Cell(INT, int(v))
        if isinstance(v, int):
            return Cell(INT, v)
        if isinstance(v, float):
            return Cell(REAL, int(v) if v == int(v) else Fraction(v))
        if isinstance(v, str):
            return Cell(TEXT, self.interner.intern(TEXT, v))
        if isinstance(v, (bytes, memoryview)):
            return Cell(BLOB, self.interner.intern(BLOB, bytes(v)))
        raise TypeError(v)

    def bind(self, v):
        if isinstance(v, (I, R, B)):
            v = conv(v)
        if isinstance(v, Fraction):
            v = float(v)
        return self.cell_of(v)

    def raw_con(self, cache):
        return sqlite3.connect(os.path.join(cache._directory, 'cache.db'), timeout=5, isolation_level=None)

    def install_rows(self, cache, rowspecs, hits=0, misses=0):
        con = self.raw_con(cache)
        try:
            for spec in rowspecs:
                alive = spec.get('_alive', True)
                if isinstance(alive, B):
                    alive = bool(alive)
                if not alive:
                    continue
                vals = [self.py_of(state.to_cell(self.bind, spec.get(col))) for col in CACHE_COLS]
                con.execute('INSERT INTO Cache(%s) VALUES (%s)' % (','.join(CACHE_COLS), ','.join('?' * len(CACHE_COLS))), vals)
            con.execute('UPDATE Settings SET value = ? WHERE key = "hits"', (conv(hits),))
            con.execute('UPDATE Settings SET value = ? WHERE key = "misses"', (conv(misses),))
        finally:
            con.close()

    def snapshot(self, cache):
        con = self.raw_con(cache)
        try:
            items = []
            for row in con.execute('SELECT %s FROM Cache ORDER BY rowid' % ','.join(CACHE_COLS)).fetchall():
                items.append(Item(True, {c: self.cell_of(v) for c, v in zip(CACHE_COLS, row)}))
            settings = {k: self.cell_of(v) for k, v in con.execute('SELECT key, value FROM Settings').fetchall()}
            return Table(items, settings)
        finally:
            con.close()

    def add_prefile(self, relpath, content, size, exists):
        if isinstance(exists, z3.ExprRef):
            exists = sx.simp(exists)
        if not exists:
            return
        size = conv(size)
        p = os.path.join(self.dir, relpath)
        os.makedirs(os.path.dirname(p), exist_ok=True)
        with open(p, 'wb') as f:
            f.write(content[:size])
            f.truncate(size)

    def val_files(self, cache):
        """[(relpath, exists, size, complete)] for every *.val file under the cache directory"""
        out = []
        for dp, ds, fs in os.walk(cache._directory):
            for f in fs:
                if f.endswith('.val'):
                    p = os.path.join(dp, f)
                    out.append((os.path.relpath(p, cache._directory), True, os.path.getsize(p), True))
        return out

    def file_content(self, cache, rel):
        with open(os.path.join(cache._directory, rel), 'rb') as f:
            return f.read()

    def content_id(self, value):
        """identity of a value read back from a file: the id of the pre-state file with that content"""
        return value
