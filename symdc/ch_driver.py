"""E2: CrossHair 0.0.110 driven programmatically.  Only CONFIRMED counts as holding; REFUTED yields a
counterexample that is re-run concretely against the model and then against the real stack; anything
else is inconclusive."""
import importlib
import re
import time
import traceback


def run_job(job):
    from crosshair.core_and_libs import analyze_function
    from crosshair.options import AnalysisOptionSet, AnalysisKind
    from crosshair.core import analyze_calltree, ConditionCheckable
    from crosshair.condition_parser import condition_parser
    from crosshair.statespace import VerificationStatus, MessageType
    import crosshair.statespace as ss
    from time import process_time
    from symdc import ch_env

    stats = {'queries': 0, 'solver_s': 0.0}
    _orig = ss.solver_is_sat

    from crosshair.tracers import NoTracing

    def counted(solver, *a, **k):
        with NoTracing():
            t = time.perf_counter()
        r = _orig(solver, *a, **k)
        with NoTracing():
            stats['solver_s'] += time.perf_counter() - t
            stats['queries'] += 1
        return r
    ss.solver_is_sat = counted
    t0 = time.time()
    try:
        ch_env.MODE = 'model'
        mod = importlib.import_module(job['module'])
        fn = getattr(mod, job['func'])
        budget = job.get('budget_s', 120)
        opts = AnalysisOptionSet(per_condition_timeout=budget, per_path_timeout=max(5, budget / 4), analysis_kind=[AnalysisKind.PEP316],
                                 max_uninteresting_iterations=10 ** 9)
        out = dict(status='holds', detail='', cex=None, replay=None)
        paths = 0
        for chk in analyze_function(fn, opts):
            if not isinstance(chk, ConditionCheckable):
                return dict(status='error', detail='unexpected checkable %r' % (chk,), stats=stats, flags={}, nontrivial=0)
            options = chk.options
            options.deadline = process_time() + options.per_condition_timeout
            with condition_parser(options.analysis_kind):
                res = analyze_calltree(options, chk.conditions)
            paths += res.num_confirmed_paths
            st = res.verification_status
            msgs = [(m.state, m.message) for m in res.messages]
            if st == VerificationStatus.CONFIRMED:
                continue
            if any(s_ == MessageType.PRE_UNSAT for s_, _m in msgs):
                if job.get('exclude'):
                    out.update(detail='whole obligation lies inside the region of known finding(s) %s' % job['exclude'])
                    continue
                out.update(status='inconclusive', detail='CrossHair: unable to meet precondition (vacuous or every path timed out)')
                break
            if st == VerificationStatus.REFUTED:
                bad = [m for s, m in msgs if s in (MessageType.POST_FAIL, MessageType.EXEC_ERR, MessageType.POST_ERR)]
                text = bad[0] if bad else str(msgs)
                import inspect
                args = parse_call(text, job['func'], inspect.signature(fn))
                out.update(status='cex', detail=text[:500], cex={'values': args, 'failed_clauses': [text[:300]]})
                if args is not None:
                    out['replay'] = replay(job, args)
                else:
                    out['replay'] = {'reproduced': False, 'error': 'could not parse the counterexample: %s' % text[:300]}
                break
            out.update(status='inconclusive', detail='CrossHair: %s %s' % (st, [m for _, m in msgs][:2]))
            break
        stats2 = {'paths': paths, 'feas_queries': stats['queries'], 'verdict_queries': 0, 'solver_s': stats['solver_s']}
        out.update(stats=stats2, flags={}, nontrivial=paths, wall=time.time() - t0, samples=[])
        return out
    except BaseException as e:
        return dict(status='error', detail='%s: %s' % (type(e).__name__, e), traceback=traceback.format_exc(), stats={}, flags={}, nontrivial=0,
                    wall=time.time() - t0)
    finally:
        ss.solver_is_sat = _orig


def parse_call(text, fname, sig=None):
    m = re.search(r'calling %s\((.*?)\)(?: \(which|$)' % re.escape(fname), text, re.S)
    if not m:
        return None
    try:
        import importlib
        import inspect
        captured = {}

        def cap(*a, **k):
            captured['a'], captured['k'] = a, k
        eval('cap(%s)' % m.group(1), {'float': float, 'nan': float('nan'), 'inf': float('inf'), 'cap': cap})
        if sig is None:
            return dict(captured['k'])
        ba = sig.bind(*captured['a'], **captured['k'])
        return dict(ba.arguments)
    except Exception:
        return None


def replay(job, args):
    """concrete re-run: first against the model (discard CrossHair artefacts), then against the real stack"""
    from symdc import ch_env
    mod = importlib.import_module(job['module'])
    fn = getattr(mod, job['func'])
    res = {}
    for mode in ('model', 'real'):
        ch_env.MODE = mode
        try:
            r = fn(**args)
            res[mode] = 'ok' if r else 'fails'
        except Exception as e:
            allowed = getattr(fn, 'raises', ())
            res[mode] = 'ok' if isinstance(e, allowed) else 'fails (%s: %s)' % (type(e).__name__, str(e)[:100])
        finally:
            ch_env.MODE = 'model'
    return {'reproduced': res.get('real', '').startswith('fails'), 'failed': [job['func'] + ' ' + res.get('real', '')], 'model': res.get('model'),
            'error': None if res.get('real', '').startswith('fails') else 'real stack: %s, model: %s' % (res.get('real'), res.get('model'))}


def witness(job):
    from fractions import Fraction
    r = replay(job, job['values'])
    return dict(reproduced=r['reproduced'], failed=r['failed'], error=r.get('error'))
