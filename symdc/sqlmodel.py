"""ModelDB: interprets the SQL text diskcache sends over tables whose cells are z3 terms.

Cell = (cls, num):  cls in {NULL, INT, REAL, TEXT, BLOB} (z3 Int), num z3 Real (number, or the id of an
interned string whose numeric order is the memcmp order inside its class).  All evaluation is
"merged": a row carries an `alive` flag and statement effects are if-then-else terms, so UPDATE /
DELETE never fork and a SELECT forks only on its result cardinality, on the storage class of a
cell handed to Python and on the identity of a string handed to Python.

Semantics implemented (from the SQLite documentation): three-valued logic; storage class order
NULL < numeric < TEXT < BLOB; INTEGER/REAL compared exactly; column affinity of the schema the real
`Cache.__init__` created; AFTER INSERT/UPDATE/DELETE triggers interpreted from their DDL; rowid of
an insert = max(rowid)+1; unique index (key, raw); one writer, snapshot reads (WAL contract).
Concrete mode = the same code on ground terms (used for differential validation against sqlite3).
"""
import bisect
import z3
from fractions import Fraction

from . import zpath, sx
from .sx import (And, Or, Not, Implies, IfB, IfI, IfR, EqI, NeI, LtI, LeI, EqR, NeR, LtR, LeR, AddR, SubR, MulR,
                 SumI, SumR, Count, zB, zI, zR, simp, isz, AndL, OrL)
from .zpath import I, R, B, Ctx, Inconclusive
from .sqlparse import parse, Unsupported

NULL, INT, REAL, TEXT, BLOB = 0, 1, 2, 3, 4
ZT, ZF = z3.BoolVal(True), z3.BoolVal(False)
R0 = z3.RealVal(0)


class OperationalError(Exception):
    pass


class IntegrityError(Exception):
    pass


class InterfaceError(Exception):
    pass


class ProgrammingError(Exception):
    pass


def iv(n):
    return n


class Cell:
    """cls: python int or z3 Int term; num: python int/Fraction or z3 Real term"""
    __slots__ = ('cls', 'num')

    def __init__(self, cls, num):
        self.cls = cls
        self.num = num

    def __repr__(self):
        return 'Cell(%s,%s)' % (simp(self.cls), simp(self.num))


CNULL = Cell(NULL, 0)


def ite_cell(c, a, b):
    if a is b or c is True:
        return a
    if c is False:
        return b
    return Cell(IfI(c, a.cls, b.cls), IfR(c, a.num, b.num))


def scls(cell):
    """statically known class or None"""
    c = cell.cls
    if isz(c):
        c = simp(c)
        if not isz(c):
            cell.cls = c
    return None if isz(c) else c


def rank(cls):
    if not isz(cls):
        return 0 if cls == NULL else 1 if cls in (INT, REAL) else cls - 1
    return z3.If(cls == NULL, 0, z3.If(cls <= REAL, 1, cls - 1))


def is_null(c):
    return EqI(c.cls, NULL)


def not_null(c):
    return NeI(c.cls, NULL)


def cell_lt(a, b):
    """a < b in SQLite's cross-class order, both assumed non-NULL by the caller where it matters"""
    ra, rb = rank(a.cls), rank(b.cls)
    return Or(LtI(ra, rb), And(EqI(ra, rb), LtR(a.num, b.num)))


def cell_eq(a, b):
    return And(EqI(rank(a.cls), rank(b.cls)), EqR(a.num, b.num))


def cell_same(a, b):
    """identical stored value (class and payload); NULL same as NULL"""
    return And(EqI(a.cls, b.cls), Or(EqI(a.cls, NULL), EqR(a.num, b.num)))


class TV:
    """three-valued truth: t = is true, f = is false (neither = NULL)"""
    __slots__ = ('t', 'f')

    def __init__(self, t, f):
        self.t, self.f = t, f


class Interner:
    """strings/bytes <-> rational ids; numeric order of ids == memcmp order (per class)"""

    def __init__(self):
        self.keys = {TEXT: [], BLOB: []}  # sorted sort-keys
        self.vals = {TEXT: [], BLOB: []}  # parallel: (obj, Fraction)
        self.byid = {TEXT: {}, BLOB: {}}

    @staticmethod
    def sort_key(cls, obj):
        if cls == TEXT:
            return obj.encode('utf-8')  # raises UnicodeEncodeError for lone surrogates, as sqlite3 does
        return bytes(obj)

    def intern(self, cls, obj):
        k = self.sort_key(cls, obj)
        ks, vs = self.keys[cls], self.vals[cls]
        i = bisect.bisect_left(ks, k)
        if i < len(ks) and ks[i] == k:
            return vs[i][1]
        lo = vs[i - 1][1] if i > 0 else None
        hi = vs[i][1] if i < len(ks) else None
        GAP = 2 ** 40
        if lo is None and hi is None:
            f = 0
        elif lo is None:
            f = hi - GAP
        elif hi is None:
            f = lo + GAP
        else:
            f = (lo + hi) // 2
            if f == lo:
                raise Unsupported('interner: id space between %r and its neighbour exhausted' % (obj,))
        ks.insert(i, k)
        vs.insert(i, (obj, f))
        self.byid[cls][f] = obj
        return f

    def lookup(self, cls, f):
        return self.byid[cls][int(f)]

    def ids(self, cls):
        return [f for _, f in self.vals[cls]]


def frac_of(v):
    v = simp(v)
    if isz(v):
        raise ValueError('not ground: %s' % v)
    return Fraction(v)


INT64_MIN, INT64_MAX = -2 ** 63, 2 ** 63 - 1
INF = 2 ** 200  # stands for float('inf') in REAL cells


class Row:
    __slots__ = ('c', 'alive', 'tb')

    def __init__(self, cells, alive, tb):
        self.c = cells  # dict col -> Cell
        self.alive = alive
        self.tb = tb

    def copy(self):
        return Row(dict(self.c), self.alive, self.tb)


AFFINITY = {'INTEGER': 'INTEGER', 'INT': 'INTEGER', 'REAL': 'REAL', 'TEXT': 'TEXT', 'BLOB': 'NONE', None: 'NONE'}


def affinity_of(typename):
    """SQLite's rule for the affinity of a declared column type (datatype3.html, 3.1): substring tests in this order"""
    if typename is None:
        return 'NONE'
    u = typename.upper()
    if 'INT' in u:
        return 'INTEGER'
    if 'CHAR' in u or 'CLOB' in u or 'TEXT' in u:
        return 'TEXT'
    if 'BLOB' in u:
        return 'NONE'
    if 'REAL' in u or 'FLOA' in u or 'DOUB' in u:
        return 'REAL'
    return 'NUMERIC'


class DBState:
    """the relational content (copy = snapshot)"""

    def __init__(self):
        self.tables = {}  # name -> list[Row]

    def copy(self):
        s = DBState()
        s.tables = {k: [r.copy() for r in v] for k, v in self.tables.items()}
        return s


class ModelDB:
    def __init__(self, world=None):
        self.world = world
        self.intern = Interner()
        self.schema = {}  # table -> [(col, affinity)]
        self.triggers = []  # (event, table, body, name)
        self.indexes = {}
        self.pragmas = {'page_size': 4096, 'auto_vacuum': 0, 'cache_size': -2000, 'journal_mode': 'delete',
                        'mmap_size': 0, 'synchronous': 2}
        self.committed = DBState()
        self.lock_holder = None  # connection holding the write lock
        self.txn_state = None  # holder's private state
        self.page_count = None  # callable or value
        self.busy_hook = None

    def state_for(self, con):
        if self.lock_holder is con:
            return self.txn_state
        return self.committed

    def clone_schema_into(self, other):
        other.schema = dict(self.schema)
        other.triggers = list(self.triggers)
        other.indexes = dict(self.indexes)
        other.pragmas = dict(self.pragmas)


def _rowcount(conds):
    """number of rows a statement changed (Cursor.rowcount): symbolic when the conditions are"""
    n = sx.Count(conds)
    if isz(n):
        from .zpath import I
        return I(sx.zI(n))
    return int(n)


class Cursor:
    """result of one statement.  A SELECT cursor that is not yet exhausted keeps its statement -- and with it the
    connection's WAL read snapshot -- open (sqlite3 resets a statement when its rows are exhausted, on fetchall(),
    or when the cursor is dropped): until then the connection reads the pinned snapshot and cannot upgrade to a
    write transaction if another connection has committed meanwhile (SQLITE_BUSY_SNAPSHOT)."""

    def __init__(self, rows, rowcount=-1, con=None, pin=None):
        self._rows = rows
        self.rowcount = rowcount
        self._con = con
        if con is not None and pin is not None and rows:
            con.open_cursors.append(self)
            if con.pinned is None:
                con.pinned = pin

    def _release(self):
        con = self._con
        if con is not None and self in con.open_cursors:
            con.open_cursors.remove(self)
            if not con.open_cursors:
                con.pinned = None

    def fetchall(self):
        r, self._rows = self._rows, []
        self._release()
        return r

    def fetchone(self):
        if self._rows:
            r = self._rows.pop(0)
            if not self._rows:
                self._release()
            return r
        self._release()
        return None

    def __iter__(self):
        # CPython fetches a row and immediately steps to the next one: the statement is reset as soon as the
        # last row has been handed out
        while self._rows:
            r = self._rows.pop(0)
            if not self._rows:
                self._release()
            yield r
        self._release()

    def __del__(self):
        try:
            self._release()
        except Exception:
            pass


class SymStr:
    """a TEXT-or-NULL cell handed to Python without realising it (used for the `filename` column):
    consumers are the file-system model's merged operations; `str()` realises it by forking."""
    __slots__ = ('cell', 'db')

    def __init__(self, cell, db):
        self.cell, self.db = cell, db

    def notnull(self):
        return NeI(self.cell.cls, NULL)

    def realise(self):
        ex = Ctx.cur
        k = scls(self.cell)
        if k is None:
            k = ex.concretize_int(self.cell.cls)
        if k == NULL:
            return None
        n = simp(self.cell.num)
        if isz(n):
            n = ex.concretize_real(n)
        try:
            return self.db.intern.lookup(TEXT, n)
        except KeyError:
            raise zpath.PathEnd('string id outside the interned pool')

    def __fspath__(self):
        return self.realise()

    def __str__(self):
        return str(self.realise())

    __hash__ = None


AGG = ('MAX', 'COUNT', 'SUM')


def _has_agg(it):
    if it[0] != 'func':
        return False
    if it[1] in AGG:
        return True
    return any(_has_agg(a) for a in it[2] if isinstance(a, tuple))


class Connection:
    """model of one sqlite3 connection in autocommit mode (isolation_level=None)"""

    def __init__(self, db, name='con', timeout=0):
        self.db = db
        self.name = name
        self.timeout = timeout
        self.closed = False
        self.in_txn = False
        self.open_cursors = []
        self.pinned = None  # committed state pinned by an unexhausted SELECT cursor of this connection
        # settings SQLite keeps per connection (every new connection starts from the defaults); the others live in the file
        self.pragmas = {'cache_size': -2000, 'mmap_size': 0, 'synchronous': 2}

    # -- python <-> cell
    def bind(self, v):
        db = self.db
        if v is None:
            return CNULL
        if isinstance(v, B):
            return Cell(INT, z3.If(v.z, z3.IntVal(1), z3.IntVal(0)))
        if isinstance(v, bool):
            return Cell(INT, int(v))
        if isinstance(v, int):
            if not (INT64_MIN <= v <= INT64_MAX):
                raise OverflowError('Python int too large to convert to SQLite INTEGER')
            return Cell(INT, v)
        if isinstance(v, I):
            if not (B(z3.And(v.z >= INT64_MIN, v.z <= INT64_MAX))):
                raise OverflowError('Python int too large to convert to SQLite INTEGER')
            return Cell(INT, sx._fold(v.z))
        if isinstance(v, R):
            return Cell(REAL, sx._fold(v.z))
        if isinstance(v, Fraction):
            if v.denominator != 1:
                raise Inconclusive('non-integer real %s bound to the relational model (integer-time encoding)' % v)
            return Cell(REAL, int(v))
        if isinstance(v, float):
            if v != v:
                return CNULL  # sqlite3 binds NaN as NULL
            if v in (float('inf'), float('-inf')):
                # +-infinity: a sentinel beyond every symbolic time (all symbolic reals are assumed |x| <= 2**62)
                return Cell(REAL, INF if v > 0 else -INF)
            if v != int(v):
                raise Inconclusive('non-integer float %r bound to the relational model (integer-time encoding)' % v)
            return Cell(REAL, int(v))
        if isinstance(v, str):
            return Cell(TEXT, db.intern.intern(TEXT, v))
        if isinstance(v, (bytes, bytearray, memoryview)):
            return Cell(BLOB, db.intern.intern(BLOB, bytes(v)))
        if isinstance(v, Cell):
            return v
        if isinstance(v, SymStr):
            return v.cell
        raise ProgrammingError("Error binding parameter: type '%s' is not supported" % type(v).__name__)

    def out(self, cell):
        """hand a cell to Python"""
        ex = Ctx.cur
        k = scls(cell)
        if k is None:
            k = ex.concretize_int(cell.cls)
        if k == NULL:
            return None
        if k == INT:
            n = cell.num
            if isz(n):
                n = simp(sx.ToInt(n))
                if isz(n):
                    return I(n)
            return int(n)
        if k == REAL:
            n = simp(cell.num)
            if not isz(n):
                if abs(n) >= INF:
                    return float('inf') if n > 0 else float('-inf')
                return float(n)
            return R(n)
        n = simp(cell.num)
        if isz(n):
            n = ex.concretize_real(n)
        try:
            return self.db.intern.lookup(k, n)
        except KeyError:
            raise zpath.PathEnd('string id outside the interned pool')

    def affinity(self, table, col, cell):
        aff = dict(self.db.schema.get(table, ())).get(col, 'NONE')
        k = scls(cell)
        if aff == 'REAL':
            if k == INT:
                return Cell(REAL, cell.num)
            if k is None:
                return Cell(IfI(EqI(cell.cls, INT), REAL, cell.cls), cell.num)
        elif aff == 'INTEGER':
            if k == REAL:
                return Cell(IfI(sx.IsInt(cell.num), INT, REAL), cell.num)
            if k is None:
                return Cell(IfI(And(EqI(cell.cls, REAL), sx.IsInt(cell.num)), INT, cell.cls), cell.num)
        elif aff == 'TEXT':
            if k in (INT, REAL):
                raise Unsupported('numeric value stored into TEXT column %s.%s' % (table, col))
        elif aff == 'NUMERIC':
            # a declared type that matches none of SQLite's substring rules: integral REALs become INTEGERs, well-formed numeric
            # text becomes a number
            if k == REAL:
                return Cell(IfI(sx.IsInt(cell.num), INT, REAL), cell.num)
            if k == TEXT:
                n = sx.simp(cell.num)
                if sx.isz(n):
                    raise Unsupported('symbolic text stored into NUMERIC column %s.%s' % (table, col))
                txt = self.db.intern.lookup(TEXT, n).strip(' \t\n\r\f\v')
                try:
                    return Cell(INT, int(txt, 10)) if -2 ** 63 <= int(txt, 10) < 2 ** 63 else Cell(REAL, Fraction(float(txt)))
                except ValueError:
                    pass
                try:
                    f = float(txt)
                    if f == f and f not in (float('inf'), float('-inf')) and not any(ch in txt.lower() for ch in ('n', 'i', '_')):
                        fr = Fraction(f)
                        return Cell(INT, int(fr)) if fr.denominator == 1 and -2 ** 63 <= fr < 2 ** 63 else Cell(REAL, fr)
                except ValueError:
                    pass
                return cell
            if k is None:
                raise Unsupported('value of symbolic storage class stored into NUMERIC column %s.%s' % (table, col))
        return cell

    # -- expression evaluation
    def ev(self, e, env):
        """value expression -> Cell"""
        k = e[0]
        if k == 'param':
            return env['params'][e[1]]
        if k == 'col':
            if e[1] in ('NEW', 'OLD'):
                return env[e[1]].c[e[2]]
            row = env.get('row')
            if row is None or e[2] not in row.c:
                raise OperationalError('no such column: %s' % e[2])
            return row.c[e[2]]
        if k == 'token':
            z, isfloat = zpath.TOKENS[e[1]]
            return Cell(REAL if isfloat else INT, sx._fold(z))
        if k == 'lit':
            return self.bind(e[1])
        if k == 'dq':
            row = env.get('row')
            if row is not None and e[1] in row.c:
                return row.c[e[1]]
            return self.bind(e[1])
        if k == 'arith':
            a, b = self.ev(e[2], env), self.ev(e[3], env)
            for x in (a, b):
                if scls(x) in (TEXT, BLOB):
                    raise Unsupported('arithmetic on TEXT/BLOB')
            null = Or(EqI(a.cls, NULL), EqI(b.cls, NULL))
            isint = And(EqI(a.cls, INT), EqI(b.cls, INT))
            op = e[1]
            if op == '+':
                n = AddR(a.num, b.num)
            elif op == '-':
                n = SubR(a.num, b.num)
            elif op == '*':
                n = MulR(a.num, b.num)
            else:
                raise Unsupported('division in SQL')
            cls = IfI(null, NULL, IfI(isint, INT, REAL))
            return Cell(cls, IfR(null, 0, n))
        if k == 'neg':
            a = self.ev(e[1], env)
            return Cell(a.cls, sx.NegR(a.num))
        if k == 'func':
            name, args = e[1], e[2]
            if name == 'COALESCE':
                vals = [self.ev(a, env) for a in args]
                r = vals[-1]
                for v in reversed(vals[:-1]):
                    r = ite_cell(NeI(v.cls, NULL), v, r)
                return r
            if name in AGG and 'agg' in env:
                return env['agg'](name, args)
            raise Unsupported('function %s' % name)
        if k in ('cmp', 'and', 'or', 'not', 'isnull', 'is', 'in_list', 'in_select'):
            tv = self.evb(e, env)
            return Cell(IfI(Or(tv.t, tv.f), INT, NULL), IfR(tv.t, 1, 0))
        raise Unsupported('expression %r' % (e,))

    def evb(self, e, env):
        """boolean expression -> TV"""
        k = e[0]
        if k == 'and':
            a, b = self.evb(e[1], env), self.evb(e[2], env)
            return TV(And(a.t, b.t), Or(a.f, b.f))
        if k == 'or':
            a, b = self.evb(e[1], env), self.evb(e[2], env)
            return TV(Or(a.t, b.t), And(a.f, b.f))
        if k == 'not':
            a = self.evb(e[1], env)
            return TV(a.f, a.t)
        if k == 'cmp':
            op = e[1]
            a, b = self.ev(e[2], env), self.ev(e[3], env)
            nn = And(NeI(a.cls, NULL), NeI(b.cls, NULL))
            if nn is False:
                return TV(False, False)
            if op == '=':
                c = cell_eq(a, b)
            elif op == '!=':
                c = Not(cell_eq(a, b))
            elif op == '<':
                c = cell_lt(a, b)
            elif op == '>':
                c = cell_lt(b, a)
            elif op == '<=':
                c = Not(cell_lt(b, a))
            elif op == '>=':
                c = Not(cell_lt(a, b))
            else:
                raise Unsupported(op)
            return TV(And(nn, c), And(nn, Not(c)))
        if k == 'isnull':
            a = self.ev(e[1], env)
            c = EqI(a.cls, NULL)
            if e[2]:
                c = Not(c)
            return TV(c, Not(c))
        if k == 'is':
            a, b = self.ev(e[1], env), self.ev(e[2], env)
            c = Or(And(EqI(a.cls, NULL), EqI(b.cls, NULL)), And(NeI(a.cls, NULL), NeI(b.cls, NULL), cell_eq(a, b)))
            if e[3]:
                c = Not(c)
            return TV(c, Not(c))
        if k == 'in_list':
            a = self.ev(e[1], env)
            items = [self.ev(x, env) for x in e[2]]
            anyeq = OrL(And(NeI(x.cls, NULL), cell_eq(a, x)) for x in items)
            anynull = OrL(EqI(x.cls, NULL) for x in items)
            t = And(NeI(a.cls, NULL), anyeq)
            f = And(NeI(a.cls, NULL), Not(anyeq), Not(anynull)) if items else True
            if e[3]:
                t, f = f, t
            return TV(t, f)
        if k == 'in_select':
            a_expr, sub, neg = e[1], e[2], e[3]
            members = env['subselect'](sub)  # list of (cond, cell)
            a = self.ev(a_expr, env)
            row = env.get('row')
            # fast path: rowid IN (SELECT rowid FROM same table ...): rowids are unique (primary key)
            fast = env.get('sub_fast', {}).get(id(sub))
            if fast is not None and row is not None and a_expr == ('col', None, 'rowid') and id(row) in fast:
                t = fast[id(row)]
            else:
                anyeq = OrL(And(c, NeI(x.cls, NULL), cell_eq(a, x)) for c, x in members)
                t = And(NeI(a.cls, NULL), anyeq)
            tv = TV(t, Not(t))
            if neg:
                tv = TV(tv.f, tv.t)
            return tv
        # value used as boolean
        a = self.ev(e, env)
        return TV(And(NeI(a.cls, NULL), NeR(a.num, 0)), And(NeI(a.cls, NULL), EqR(a.num, 0)))

    # -- select machinery
    def _base_env(self, params, state):
        base_env = {'params': params, 'sub_fast': {}, '_subcache': {}}

        def subselect(sub):
            c = base_env['_subcache']
            if id(sub) not in c:
                c[id(sub)] = self._sub_members(sub, params, state, base_env)
            return c[id(sub)]
        base_env['subselect'] = subselect
        return base_env

    def _select_core(self, sel, params, state):
        """returns (rows, inl, ranks): inl[i] = row i is in the result, ranks[i] its position (None = by rowid order, lazily)"""
        _, items, table, where, order, limit = sel
        if table not in state.tables:
            raise OperationalError('no such table: %s' % table)
        rows = state.tables[table]
        base_env = self._base_env(params, state)
        sels = []
        for r in rows:
            if r.alive is False:
                sels.append(False)
                continue
            env = dict(base_env, row=r)
            if where is not None:
                sels.append(And(r.alive, self.evb(where, env).t))
            else:
                sels.append(r.alive)
        n = len(rows)
        cand = [i for i in range(n) if sels[i] is not False]
        okeys = {}
        for i in cand:
            env = dict(base_env, row=rows[i])
            okeys[i] = [self.ev(e, env) for e, _ in order]
        descs = [d for _, d in order]
        unique_order = (not order) or any(e == ('col', None, 'rowid') for e, _ in order)

        def before(j, i):
            # row j sorts strictly before row i
            if not order:
                return LtR(rows[j].c['rowid'].num, rows[i].c['rowid'].num)
            if unique_order:
                res = False
            else:
                rj, ri = rows[j], rows[i]
                res = Or(LtR(rj.tb, ri.tb), And(EqR(rj.tb, ri.tb), LtR(rj.c['rowid'].num, ri.c['rowid'].num)))
            for t in range(len(order) - 1, -1, -1):
                a, b = okeys[j][t], okeys[i][t]
                lt = cell_lt(b, a) if descs[t] else cell_lt(a, b)
                eq = And(EqI(rank(a.cls), rank(b.cls)), Or(EqI(a.cls, NULL), EqR(a.num, b.num)))
                res = Or(lt, And(eq, res))
            return res

        ranks = [0] * n
        need_ranks = limit is not None or len(cand) > 1
        if need_ranks:
            for i in cand:
                ranks[i] = SumI(IfI(And(sels[j], before(j, i)), 1, 0) for j in cand if j != i)
        if limit is not None:
            lim = self.ev(limit, base_env)
            L = sx.ToInt(lim.num)
            inl = [False] * n
            for i in cand:
                inl[i] = And(sels[i], Or(LtI(L, 0), LtI(ranks[i], L)))
        else:
            inl = sels
        inl = [simp(x) for x in inl]
        return rows, inl, ranks, base_env

    def _sub_members(self, sub, params, state, base_env):
        rows, inl, ranks, _ = self._select_core(sub, params, state)
        items = sub[1]
        if len(items) != 1:
            raise Unsupported('sub-select with %d columns' % len(items))
        out = []
        for r, c in zip(rows, inl):
            if c is False:
                continue
            out.append((c, self.ev(items[0], dict(base_env, row=r))))
        if items[0] == ('col', None, 'rowid'):
            base_env['sub_fast'][id(sub)] = {id(r): c for r, c in zip(rows, inl)}
        return out

    def do_select(self, sel, params, state):
        ex = Ctx.cur
        _, items, table, where, order, limit = sel
        rows, inl, ranks, base_env = self._select_core(sel, params, state)
        n = len(rows)
        if any(_has_agg(it) for it in items if isinstance(it, tuple) and it):
            def agg(name, args):
                if name == 'COUNT':
                    if args and args[0] != ('star',):
                        return Cell(INT, Count(And(inl[i], NeI(self.ev(args[0], dict(base_env, row=rows[i])).cls, NULL))
                                               for i in range(n) if inl[i] is not False))
                    return Cell(INT, Count(inl))
                idx = [i for i in range(n) if inl[i] is not False]
                vals = {i: self.ev(args[0], dict(base_env, row=rows[i])) for i in idx}
                present = {i: And(inl[i], NeI(vals[i].cls, NULL)) for i in idx}
                anyp = OrL(present.values())
                if name == 'SUM':
                    s = SumR(IfR(present[i], vals[i].num, 0) for i in idx)
                    allint = AndL(Or(Not(present[i]), EqI(vals[i].cls, INT)) for i in idx)
                    return Cell(IfI(anyp, IfI(allint, INT, REAL), NULL), s)
                if name == 'MAX':
                    res = CNULL
                    for i in idx:
                        better = And(present[i], Or(EqI(res.cls, NULL), cell_lt(res, vals[i])))
                        res = ite_cell(better, vals[i], res)
                    return res
                raise Unsupported(name)
            env = dict(base_env, agg=agg)
            return Cursor([tuple(self.out(self.ev(it, env)) for it in items)])
        cnt = simp(Count(inl))
        k = cnt if not isz(cnt) else ex.concretize_int(cnt)
        result = []
        cols_all = [c for c, _ in self.db.schema.get(table, ())]
        exprs = []
        for it in items:
            if it == ('star',):
                exprs.extend(('col', None, c) for c in cols_all)
            else:
                exprs.append(it)
        for p in range(k):
            conds = [False if inl[i] is False else simp(And(inl[i], EqI(ranks[i], p))) for i in range(n)]
            live = [i for i in range(n) if conds[i] is not False]
            if any(conds[i] is True for i in live):
                live = [i for i in live if conds[i] is True][:1]
            outrow = []
            for it in exprs:
                cell = None
                for i in live:
                    v = self.ev(it, dict(base_env, row=rows[i]))
                    cell = v if cell is None else ite_cell(conds[i], v, cell)
                if cell is None:
                    raise zpath.PathEnd('empty merge')
                if it == ('col', None, 'filename') and table == 'Cache' and (isz(cell.cls) or isz(cell.num)) \
                        and scls(cell) in (None, TEXT) and not getattr(self.db, 'realise_filenames', False):
                    outrow.append(SymStr(cell, self.db))
                else:
                    outrow.append(self.out(cell))
            result.append(tuple(outrow))
        return Cursor(result)

    # -- triggers
    def fire(self, event, table, cond, old, new, state):
        for ev_, tab, body, _name, when in self.db.triggers:
            if ev_ != event or tab != table:
                continue
            if when is not None:  # CREATE TRIGGER ... FOR EACH ROW WHEN <expr over OLD / NEW>
                cond = And(cond, self.evb(when, {'params': [], 'row': None, 'OLD': old, 'NEW': new}).t)
                if cond is False:
                    continue
            for st in body:
                _, ttab, sets, where = st
                for r in state.tables[ttab]:
                    if r.alive is False:
                        continue
                    env = {'params': [], 'row': r, 'OLD': old, 'NEW': new}
                    c = And(cond, r.alive, self.evb(where, env).t) if where is not None else And(cond, r.alive)
                    if c is False:
                        continue
                    newvals = {col: self.affinity(ttab, col, self.ev(x, env)) for col, x in sets}
                    for col, v in newvals.items():
                        r.c[col] = ite_cell(c, v, r.c[col])

    # -- statements
    def execute(self, sql, params=()):
        r = self._execute(sql, params)
        if self.db.world is not None and sql.lstrip()[:8].upper() in ('COMMIT', 'ROLLBACK'):
            # a second event right after a transaction has ended: the point "statement done, next Python statement not yet run"
            self.db.world.event('sql', 'after ' + sql.strip().upper(), self)
        return r

    def _execute(self, sql, params=()):
        db = self.db
        if self.closed:
            raise ProgrammingError('Cannot operate on a closed database.')
        if db.world is not None:
            db.world.event('sql', sql, self)
        if getattr(db, 'busy_all_hook', None) is not None and db.busy_all_hook(self, sql):
            # a lock that blocks readers too (exclusive locking mode, recovery, journal-mode switch of another client)
            raise OperationalError('database is locked')
        st, nparams = parse(sql)
        params = list(params)
        if len(params) != nparams:
            raise ProgrammingError('Incorrect number of bindings supplied. The current statement uses %d, and there are %d supplied.' % (nparams, len(params)))
        kind = st[0]
        if kind == 'begin':
            if self.in_txn:
                raise OperationalError('cannot start a transaction within a transaction')
            if st[1] not in ('IMMEDIATE', 'EXCLUSIVE'):
                raise Unsupported('BEGIN %s: the lock contract is modelled for BEGIN IMMEDIATE only' % st[1])
            if db.busy_hook is not None and db.busy_hook(self):
                if db.world is not None:
                    db.world.refused()
                raise OperationalError('database is locked')
            if db.lock_holder is not None:
                if db.world is not None:
                    db.world.spin()
                raise OperationalError('database is locked')
            if self.pinned is not None and self.pinned is not db.committed:
                # read snapshot is stale: the read transaction cannot be upgraded (SQLITE_BUSY_SNAPSHOT)
                raise OperationalError('database is locked')
            db.lock_holder = self
            db.txn_state = db.committed.copy()
            self.in_txn = True
            return Cursor([])
        if kind == 'commit':
            if not self.in_txn:
                raise OperationalError('cannot commit - no transaction is active')
            db.committed = db.txn_state
            db.txn_state = None
            db.lock_holder = None
            self.in_txn = False
            return Cursor([])
        if kind == 'rollback':
            if not self.in_txn:
                raise OperationalError('cannot rollback - no transaction is active')
            db.txn_state = None
            db.lock_holder = None
            self.in_txn = False
            return Cursor([])
        if kind == 'pragma':
            return self.do_pragma(st)
        if kind == 'vacuum':
            if self.in_txn:
                raise OperationalError('cannot VACUUM from within a transaction')
            if db.lock_holder is not None:
                raise OperationalError('database is locked')
            return Cursor([])
        cells = [self.bind(p) for p in params]
        if kind == 'select':
            state = db.state_for(self)
            if self.pinned is not None and db.lock_holder is not self:
                state = self.pinned
            cur = self.do_select(st, cells, state)
            if db.lock_holder is not self:
                return Cursor(cur._rows, con=self, pin=state)
            return cur
        # writes
        auto = not self.in_txn
        if auto:
            if db.lock_holder is not None or (db.busy_hook is not None and db.busy_hook(self)):
                raise OperationalError('database is locked')
            if self.pinned is not None and self.pinned is not db.committed:
                raise OperationalError('database is locked')
            state = db.committed.copy()
        else:
            state = db.txn_state
        cur = self.do_write(st, cells, state)
        if auto:
            db.committed = state
        return cur

    def do_pragma(self, st):
        db = self.db
        _, name, val = st
        name = name.lower()
        if name == 'page_count':
            pc = db.page_count
            v = pc() if callable(pc) else (1 if pc is None else pc)
            return Cursor([(v,)])
        if name == 'integrity_check':
            return Cursor([('ok',)])
        if name in self.pragmas:
            if val is None:
                return Cursor([(self.pragmas[name],)])
            self.pragmas[name] = val
            return Cursor([])
        if val is None:
            if name not in db.pragmas:
                raise Unsupported('PRAGMA %s' % name)
            return Cursor([(db.pragmas[name],)])
        if db.lock_holder is not None and db.lock_holder is not self and name in ('journal_mode', 'auto_vacuum'):
            raise OperationalError('database is locked')
        if name == 'journal_mode':
            val = str(val).lower()
            db.pragmas[name] = val
            return Cursor([(val,)])
        db.pragmas[name] = val
        return Cursor([])

    def do_write(self, st, cells, state):
        db = self.db
        kind = st[0]
        if kind == 'create_table':
            _, name, cols = st
            if name not in state.tables:
                state.tables[name] = []
                db.schema[name] = [(c, affinity_of(t)) for c, t, _ in cols]
                if not any(c == 'rowid' for c, _, _ in cols):
                    db.schema[name] = [('rowid', 'INTEGER')] + db.schema[name]
            return Cursor([])
        if kind == 'create_index':
            db.indexes[st[1]] = st
            return Cursor([])
        if kind == 'drop_index':
            db.indexes.pop(st[1], None)
            return Cursor([])
        if kind == 'create_trigger':
            _, name, event, table, body, when = st
            if not any(t[3] == name for t in db.triggers):
                db.triggers.append((event, table, body, name, when))
            return Cursor([])
        if kind == 'insert':
            return self.do_insert(st, cells, state)
        if kind == 'update':
            _, table, sets, where = st
            if table not in state.tables:
                raise OperationalError('no such table: %s' % table)
            base_env = self._base_env(cells, state)
            hit = []
            for r in state.tables[table]:
                if r.alive is False:
                    continue
                env = dict(base_env, row=r)
                c = And(r.alive, self.evb(where, env).t) if where is not None else r.alive
                c = simp(c)
                if c is False:
                    continue
                hit.append(c)
                old = r.copy()
                newvals = [(col, self.affinity(table, col, self.ev(x, env))) for col, x in sets]
                for col, v in newvals:
                    r.c[col] = ite_cell(c, v, old.c[col])
                self.fire('UPDATE', table, c, old, r, state)
            return Cursor([], rowcount=_rowcount(hit))
        if kind == 'delete':
            _, table, where = st
            base_env = self._base_env(cells, state)
            rows = state.tables[table]
            conds = []
            for r in rows:
                if r.alive is False:
                    conds.append(False)
                    continue
                env = dict(base_env, row=r)
                c = And(r.alive, self.evb(where, env).t) if where is not None else r.alive
                conds.append(simp(c))
            for r, c in zip(rows, conds):
                if c is False:
                    continue
                r.alive = simp(And(r.alive, Not(c)))
                self.fire('DELETE', table, c, r, None, state)
            return Cursor([], rowcount=_rowcount([c for c in conds if c is not False]))
        raise Unsupported('statement kind %s' % kind)

    def do_insert(self, st, cells, state):
        db = self.db
        _, conflict, table, cols, vals = st
        if table not in state.tables:
            raise OperationalError('no such table: %s' % table)
        schema_cols = [c for c, _ in db.schema[table]]
        if cols is None:
            cols = [c for c in schema_cols if c != 'rowid'] if len(vals) == len(schema_cols) - 1 else schema_cols
        env = {'params': cells}
        new = {c: CNULL for c in schema_cols}
        for c, x in zip(cols, vals):
            new[c] = self.affinity(table, c, self.ev(x, env))
        rows = state.tables[table]
        if table == 'Settings':
            # key TEXT NOT NULL UNIQUE
            dup = [r for r in rows if simp(And(r.alive, cell_eq(r.c['key'], new['key']))) is True]
            if dup:
                if conflict == 'IGNORE':
                    return Cursor([])
                if conflict == 'REPLACE':
                    for r in dup:
                        r.alive = False
                else:
                    raise IntegrityError('UNIQUE constraint failed: Settings.key')
        else:
            uniq = [ix for ix in db.indexes.values() if ix[2] == table and ix[4]]
            for ix in uniq:
                icols = ix[3]
                clash = OrL(And(r.alive, *[And(NeI(r.c[c].cls, NULL), NeI(new[c].cls, NULL), cell_eq(r.c[c], new[c])) for c in icols]) for r in rows)
                if B(zB(clash)):
                    if conflict is None:
                        raise IntegrityError('UNIQUE constraint failed: %s' % ', '.join('%s.%s' % (table, c) for c in icols))
                    raise Unsupported('INSERT OR %s on a clash in %s' % (conflict, table))
        # rowid
        mx = 0
        for r in rows:
            if r.alive is False:
                continue
            mx = IfR(And(r.alive, LtR(mx, r.c['rowid'].num)), r.c['rowid'].num, mx)
        if scls(new['rowid']) == NULL:
            new['rowid'] = Cell(INT, simp(AddR(mx, 1)))
        row = Row(new, True, 0)
        rows.append(row)
        self.fire('INSERT', table, True, None, row, state)
        return Cursor([])

    def close(self):
        if self.in_txn:
            self.db.txn_state = None
            self.db.lock_holder = None
            self.in_txn = False
        self.closed = True
