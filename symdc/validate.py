"""Differential validation of the environment models (not the deciding step).

Random sequences of real Cache API calls are executed twice with the same controlled clock: once with
the seams bound to the model backend run on ground terms (the very code the solver sees), once bound
to the real sqlite3 + real files.  Return values, raised exception types, the final Cache table, the
Settings counters and the set of value files must agree.  Keys/values include NULLs, ties, mixed
storage classes, int64 boundaries, text/bytes/pickled keys, inline and file-backed values."""
import os
import random

from . import env, realenv, sx, zpath
from .zpath import Ctx
from .state import CACHE_COLS

KEYS = [0, 1, -1, 2 ** 63 - 1, -2 ** 63, 5, 1.0, 2.0, 'a', 'b', 'a-1', '', b'a', b'\x00', (1, 2), None, 2 ** 64, True]
VALUES = [0, 7, -3, 2 ** 63 - 1, 'text', 'x' * 40, 'a\rb\r\nc\n' * 3, '\ud800' * 9, 'nul\x00\u2028\x85' * 3, b'bytes', b'y' * 40, None, (1, 'two'), 2.0, 2 ** 70]
TAGS = [None, 'red', 'blue', 5]


def norm(v):
    if isinstance(v, (zpath.I, zpath.R, zpath.B)):
        v = realenv.conv(v)
    if isinstance(v, float) and v == int(v):
        return ('num', int(v))
    if isinstance(v, bool):
        return ('bool', v)
    if isinstance(v, int):
        return ('num', v)
    if isinstance(v, tuple):
        return tuple(norm(x) for x in v)
    if isinstance(v, list):
        return [norm(x) for x in v]
    if isinstance(v, memoryview):
        return bytes(v)
    return v


def gen_ops(rnd, n):
    ops = []
    for _ in range(n):
        k = rnd.choice(KEYS)
        op = rnd.choice(['set', 'set', 'set', 'add', 'get', 'get', 'incr', 'decr', 'pop', 'delete', 'touch', 'push', 'push', 'pull', 'peek',
                         'expire', 'evict', 'clear', 'cull', 'iter', 'riter', 'iterkeys', 'riterkeys', 'peekitem', 'len', 'contains', 'check',
                         'volume_size', 'stats', 'tick', 'tick'])
        exp = rnd.choice([None, None, 0, 1, 5, -2, 100])
        ops.append((op, k, rnd.choice(VALUES), exp, rnd.choice(TAGS), rnd.choice([None, 'a', 'a-1', 'q']), rnd.choice(['front', 'back']),
                    rnd.random() < 0.5))
    return ops


def apply(c, w, ops, clock):
    out = []
    for (op, k, v, exp, tag, prefix, side, flag) in ops:
        try:
            if op == 'set':
                r = c.set(k, v, expire=exp, tag=tag)
            elif op == 'add':
                r = c.add(k, v, expire=exp, tag=tag)
            elif op == 'get':
                r = c.get(k, default='dflt', expire_time=flag, tag=not flag)
            elif op == 'incr':
                r = c.incr(k, 3, default=None if flag else 10)
            elif op == 'decr':
                r = c.decr(k, 2)
            elif op == 'pop':
                r = c.pop(k, default='dflt', expire_time=flag)
            elif op == 'delete':
                r = c.delete(k)
            elif op == 'touch':
                r = c.touch(k, expire=exp)
            elif op == 'push':
                r = c.push(v, prefix=prefix, side=side, expire=exp, tag=tag)
            elif op == 'pull':
                r = c.pull(prefix=prefix, side=side, expire_time=flag)
            elif op == 'peek':
                r = c.peek(prefix=prefix, side=side, tag=flag)
            elif op == 'expire':
                r = c.expire()
            elif op == 'evict':
                r = c.evict(tag)
            elif op == 'clear':
                r = c.clear()
            elif op == 'cull':
                r = c.cull()
            elif op == 'iter':
                r = list(c)
            elif op == 'riter':
                r = list(reversed(c))
            elif op == 'iterkeys':
                r = list(c.iterkeys())
            elif op == 'riterkeys':
                r = list(c.iterkeys(reverse=True))
            elif op == 'peekitem':
                r = c.peekitem(last=flag)
            elif op == 'len':
                r = len(c)
            elif op == 'contains':
                r = k in c
            elif op == 'check':
                r = len(c.check())
            elif op == 'volume_size':
                r = c.reset('size')
            elif op == 'stats':
                r = c.stats(enable=flag, reset=not flag)
            elif op == 'tick':
                clock[0] += 3
                r = None
            out.append(('ok', norm(r)))
        except (KeyError, TypeError, ValueError, OverflowError, UnicodeEncodeError) as e:
            out.append(('exc', type(e).__name__))
        except Exception as e:
            name = type(e).__name__
            out.append(('exc', {'InterfaceError': 'ProgrammingError'}.get(name, name)))
    return out


def table_of(w, c):
    T = w.snapshot(c)
    rows = []
    for it in T.items:
        if sx.simp(it.present) is not True:
            continue
        row = []
        for col in CACHE_COLS:
            cell = it.c[col]
            k, n = sx.simp(cell.cls), sx.simp(cell.num)
            if col == 'filename':
                row.append(k)  # file names are random
            elif k in (3, 4):
                obj = (w.interner).lookup(k, n)  # noqa
                row.append((k, obj))
            else:
                row.append((1 if k in (1, 2) else k, n))
        rows.append(tuple(row))
    settings = {k: (sx.simp(v.cls) if sx.simp(v.cls) in (0, 3, 4) else 1, sx.simp(v.num) if sx.simp(v.cls) in (1, 2) else None)
                for k, v in T.settings.items() if k in ('count', 'size', 'hits', 'misses', 'statistics')}
    nfiles = len([1 for rel, ex, size, comp in w.val_files(c) if sx.simp(ex) is True])
    return rows, settings, nfiles


def norm_events(log):
    """the sequence of SQL statements / file operations the code issued (paths and parameters dropped): crash, fault and
    interference points are event indices, so model and real stack must number events alike for replays to line up"""
    out = []
    for _, kind, d in log:
        if kind == 'sql':
            out.append(('sql', ' '.join(d.split())[:44]))
        else:
            parts = d.split(':')
            out.append(('fs', ':'.join(parts[:2]) if parts[0] == 'open' else parts[0]))
    return out


def one(L, ops, settings, page):
    res = []
    for real in (False, True):
        Ctx.cur = None
        clock = [1000]
        w = realenv.RealWorld(L, {}, page=page, batch=page) if real else env.World(L, page=page, batch=page)
        try:
            w.clock_fn = lambda: float(clock[0])
            c = w.new_cache(None, **settings)
            if not real:
                db = c._con.db
                db.page_count = 1
            else:
                w.page_count_fn = lambda: 1
            w.start_events()
            out = apply(c, w, ops, clock)
            w.stop_events()
            res.append((out, table_of(w, c), norm_events(w.log)))
        finally:
            w.cleanup()
    return res


def run(L, seed=0, n=40, length=14):
    rnd = random.Random(seed)
    disagreements = []
    calls = 0
    ev_mis, ev_total = [], 0
    for i in range(n):
        ops = gen_ops(rnd, length)
        settings = dict(eviction_policy=rnd.choice(['least-recently-stored', 'least-recently-used', 'least-frequently-used', 'none']),
                        statistics=rnd.choice([0, 1]), disk_min_file_size=rnd.choice([0, 8, 2 ** 15]), cull_limit=rnd.choice([0, 1, 10]),
                        size_limit=rnd.choice([0, 5000, 2 ** 30]))
        page = rnd.choice([1, 2, 100])
        try:
            (o1, t1, e1), (o2, t2, e2) = one(L, ops, settings, page)
        except Exception as e:
            import traceback
            disagreements.append({'case': i, 'error': '%s: %s' % (type(e).__name__, e), 'tb': traceback.format_exc()[-800:]})
            continue
        calls += len(ops)
        ev_total += len(e2)
        if e1 != e2:
            j = next((q for q, (a, b) in enumerate(zip(e1, e2)) if a != b), min(len(e1), len(e2)))
            ev_mis.append({'case': i, 'at': j, 'model': e1[max(0, j - 2):j + 3], 'real': e2[max(0, j - 2):j + 3], 'lens': (len(e1), len(e2))})
        if o1 != o2 or t1 != t2:
            first = next((j for j, (a, b) in enumerate(zip(o1, o2)) if a != b), None)
            disagreements.append({'case': i, 'settings': settings, 'page': page, 'first_differing_call': first,
                                  'op': repr(ops[first]) if first is not None else None,
                                  'model': repr(o1[first]) if first is not None else repr(t1)[:600],
                                  'real': repr(o2[first]) if first is not None else repr(t2)[:600],
                                  'ops': repr(ops[:first + 1 if first is not None else None])[:1500]})
    return {'sequences': n, 'api_calls_compared': calls, 'disagreements': disagreements, 'event_sequence_mismatches': ev_mis, 'events_compared': ev_total}


if __name__ == '__main__':
    import sys
    from . import loader
    L = loader.load()
    r = run(L, seed=int(sys.argv[1]) if len(sys.argv) > 1 else 0, n=int(sys.argv[2]) if len(sys.argv) > 2 else 40)
    print(r['sequences'], r['api_calls_compared'], len(r['disagreements']), 'events', r['events_compared'], 'event mismatches', len(r['event_sequence_mismatches']))
    for d in r['event_sequence_mismatches'][:8]:
        print(d)
    for d in r['disagreements'][:5]:
        print(d)
