"""Entry point behind ./run: builds the obligation list of a property for a tier, runs it on a process
pool, applies the known-findings policy, writes evidence/<ID>.json, sets the exit code.

exit 0  every obligation decided "holds within the bound" (+ KNOWN-FINDING lines)
exit 1  a counterexample reproduced on the real stack: VIOLATION property=<id> replay=<path>
exit 2  inconclusive (budget, solver unknown, unsupported SQL, skipped cut)
exit 3  harness error (counterexample did not reproduce, vacuity guard, model validation failed)
"""
import importlib
import json
import multiprocessing as mp
import os
import sys
import time
import traceback

HERE = os.path.dirname(os.path.dirname(os.path.abspath(__file__)))
sys.path.insert(0, HERE)

# VERIF_OUT (used by tools/seedtest.sh): write evidence and replay files of a run against a scratch tree somewhere else
EVIDENCE_DIR = os.path.join(os.environ['VERIF_OUT'], 'evidence') if os.environ.get('VERIF_OUT') else os.path.join(HERE, 'evidence')
REPLAY_DIR = os.path.join(os.environ['VERIF_OUT'], 'replay') if os.environ.get('VERIF_OUT') else os.path.join(HERE, '.work', 'replay')
FINDINGS = os.path.join(HERE, 'known_findings.json')


def load_findings():
    if not os.path.exists(FINDINGS):
        return []
    return json.load(open(FINDINGS))['findings']


class HardTimeout(BaseException):
    pass


def _alarm(signum, frame):
    raise HardTimeout()


def _worker(job):
    """runs in a pool process: one obligation (hard wall-clock limit = 1.2 x budget + 90 s -> inconclusive)"""
    import signal
    t0 = time.time()
    signal.signal(signal.SIGALRM, _alarm)
    # repeating timer: a single alarm can be swallowed when it fires inside a __del__ or a bare except
    signal.setitimer(signal.ITIMER_REAL, int(job.get('budget_s', 300) * 1.2 + 90), 3)
    try:
        return _worker_inner(job, t0)
    except HardTimeout:
        return dict(job=job, status='inconclusive', detail='hard wall-clock limit reached (%.0fs)' % (time.time() - t0), wall=time.time() - t0,
                    stats={}, flags={}, nontrivial=0, cex=None, replay=None)
    finally:
        signal.setitimer(signal.ITIMER_REAL, 0)
        signal.signal(signal.SIGALRM, signal.SIG_IGN)


def _worker_inner(job, t0):
    try:
        from symdc import loader
        kind = job['engine']
        mod = importlib.import_module(job['module'])
        if kind == 'E1':
            from symdc import harness, sx
            L = _get_L()
            fn = getattr(mod, job['func'])
            P = dict(job['params'])
            P['exclude'] = job.get('exclude', [])
            prop = job['prop']

            def ob(w):
                cl = fn(w, P)
                cl2 = [(lab, f) for tags, lab, f in cl if (set(tags.split(',')) & set(job['only_tags']) if job.get('only_tags') else (prop in tags.split(',') or job.get('all_clauses', True)))]
                return sx.zB(sx.AndL(f for _, f in cl2)), {'clauses': cl2}
            r = harness.run(ob, L, budget_s=job['budget_s'], page=P.get('page', 1), batch=P.get('batch', 1))
            out = dict(status=r.status, stats=r.stats, flags=r.flags, detail=getattr(r, 'detail', ''), wall=r.wall,
                       nontrivial=getattr(r, 'nontrivial', 0), cex=getattr(r, 'cex', None), replay=getattr(r, 'replay', None),
                       traceback=getattr(r, 'traceback', None), samples=getattr(r, 'samples', []))
            if job.get('twin') and r.status == 'holds':
                # reachability twin: same body, final assertion False -> must be refuted
                def twin(w):
                    fn(w, P)
                    return False, {'clauses': [('reachability twin', False)]}
                rt = harness.run(twin, L, budget_s=min(60, job['budget_s']), page=P.get('page', 1), batch=P.get('batch', 1), replay=False)
                out['twin'] = rt.status
            return dict(job=job, **out)
        elif kind == 'VAL':
            from symdc import validate
            v = validate.run(_get_L(), seed=job.get('seed', 0), n=job.get('n', 40))
            st = 'holds' if not v['disagreements'] else 'error'
            return dict(job=job, status=st, detail='' if st == 'holds' else 'the SQL/FS model disagrees with sqlite3/real files on %d cases, e.g. %s' % (len(v['disagreements']), str(v['disagreements'][0])[:600]),
                        stats={'paths': v['api_calls_compared']}, flags={}, nontrivial=0, cex=None, replay=None, validation=v, wall=time.time() - t0)
        elif kind == 'E2':
            from symdc import ch_driver
            mod.EXCLUDE = list(job.get('exclude', []))
            out = ch_driver.run_job(job)
            out.setdefault('wall', time.time() - t0)
            return dict(job=job, **out)
        else:
            fn = getattr(mod, job['func'])
            out = fn(job)
            out.setdefault('wall', time.time() - t0)
            return dict(job=job, **out)
    except HardTimeout:
        raise
    except BaseException as e:
        return dict(job=job, status='error', detail='%s: %s' % (type(e).__name__, e), traceback=traceback.format_exc(), wall=time.time() - t0,
                    stats={}, flags={}, nontrivial=0, cex=None, replay=None)


_L = None


def _get_L():
    global _L
    if _L is None:
        from symdc import loader
        _L = loader.load()
    return _L


def witness_replay(job):
    """replay a recorded known-finding witness on the real stack; returns True if it still fails"""
    try:
        mod = importlib.import_module(job['module'])
        if job['engine'] == 'E1':
            from symdc import harness, sx
            from fractions import Fraction
            L = _get_L()
            fn = getattr(mod, job['func'])
            P = dict(job['params'])
            P['exclude'] = []
            prop = job['prop']

            def ob(w):
                cl = fn(w, P)
                cl2 = [(lab, f) for tags, lab, f in cl if (set(tags.split(',')) & set(job['only_tags']) if job.get('only_tags') else (prop in tags.split(',') or job.get('all_clauses', True)))]
                return sx.zB(sx.AndL(f for _, f in cl2)), {'clauses': cl2}
            vals = {k: (Fraction(v) if isinstance(v, str) else v) for k, v in job['values'].items()}
            r = harness.replay_real(ob, L, vals, P.get('page', 1), P.get('batch', 1))
            return dict(reproduced=r.get('reproduced', False), failed=r.get('failed', []), error=r.get('error'))
        if job['engine'] == 'E2':
            from symdc import ch_driver
            mod.EXCLUDE = []
            return ch_driver.witness(job)
        fn = getattr(mod, job['witness_func'])
        return fn(job)
    except BaseException as e:
        return dict(reproduced=False, error='%s: %s\n%s' % (type(e).__name__, e, traceback.format_exc()))


def main(argv):
    if len(argv) < 3:
        print('usage: run <ID> quick|thorough [--replay FILE] [--only REGEX] [--jobs N]')
        return 3
    prop, tier = argv[1], argv[2]
    if tier == 'thorough':
        os.environ.setdefault('VERIF_XCHECK', '3')
    only = None
    jobs_n = min(16, os.cpu_count() or 4)
    replay_file = None
    i = 3
    while i < len(argv):
        if argv[i] == '--only':
            only = argv[i + 1]
            i += 2
        elif argv[i] == '--jobs':
            jobs_n = int(argv[i + 1])
            i += 2
        elif argv[i] == '--replay':
            replay_file = argv[i + 1]
            i += 2
        else:
            i += 1
    from symdc import registry
    t0 = time.time()
    seed = int(os.environ.get('VERIF_SEED', '0'))
    if replay_file:
        job = json.load(open(replay_file))
        job.setdefault('prop', prop)
        r = witness_replay(job)
        print(json.dumps(r, indent=1))
        return 1 if r.get('reproduced') else 0
    findings = [f for f in load_findings() if f['property'] == prop or prop in f.get('also', [])]
    known = [f for f in findings if f['status'] == 'known']
    jobs = registry.jobs_for(prop, tier)
    import re
    if only:
        jobs = [j for j in jobs if re.search(only, j['id'])]
    for j in jobs:
        j['prop'] = prop
        j['exclude'] = [f['id'] for f in known if re.search(f['obligations'], j['id'])]
    # pre-flight (guards): loader cuts present, SQL statements parse, model validation
    pre = registry.preflight(prop, tier)
    # differential model validation runs as one more job of the pool (own hard time limit)
    if any(j.get('engine') == 'E1' for j in jobs):
        jobs.append(dict(id='model-validation', engine='VAL', module='symdc.validate', func='run', params={}, seed=seed, n=40 if tier == 'quick' else 200,
                         budget_s=60, weight=10 ** 6, prop=prop, tags=[prop], functions=[]))
    results = []
    ctx = mp.get_context('fork')
    if jobs:
        # longest first
        jobs.sort(key=lambda j: -j.get('weight', 1))
        with ctx.Pool(processes=min(jobs_n, len(jobs)), maxtasksperchild=1) as pool:
            for r in pool.imap_unordered(_worker, jobs):
                results.append(r)
                if os.environ.get('VERIF_VERBOSE'):
                    print('  [%s] %s %.1fs %s' % (r['status'], r['job']['id'], r.get('wall', 0), r.get('detail', '') or ''), flush=True)
    # known findings: replay witnesses
    known_lines = []
    for f in known:
        wj = dict(f['witness'])
        wj['prop'] = prop
        r = witness_replay(wj)
        f['_still_fails'] = bool(r.get('reproduced'))
        if r.get('reproduced'):
            known_lines.append('KNOWN-FINDING: property=%s %s [%s]' % (prop, f['what'], f['id']))
        elif r.get('error'):
            pre['errors'].append('witness of known finding %s could not be replayed: %s' % (f['id'], r['error']))
    for r in results:
        if r['job'].get('engine') == 'VAL':
            pre['info']['model_validation'] = r.get('validation') or r.get('detail')
    # aggregate
    violations, inconclusive, errors = [], [], list(pre['errors'])
    inconclusive.extend(pre['inconclusive'])
    os.makedirs(REPLAY_DIR, exist_ok=True)
    for r in results:
        j = r['job']
        st = r['status']
        if r.get('stats', {}).get('xcheck_disagree'):
            errors.append('%s: cvc5 disagrees with z3 on %d verdict queries' % (j['id'], r['stats']['xcheck_disagree']))
        if st == 'holds':
            if r.get('twin') not in (None, 'cex'):
                errors.append('%s: reachability twin came back %s (vacuous obligation)' % (j['id'], r.get('twin')))
            must = j.get('must_reach', [])
            for m in must:
                if not r.get('flags', {}).get(m):
                    errors.append('%s: must-reach flag %r not reached on any path' % (j['id'], m))
        elif st == 'cex':
            rp = r.get('replay') or {}
            if rp.get('reproduced'):
                path = os.path.join(REPLAY_DIR, '%s__%s.json' % (prop, re.sub(r'[^A-Za-z0-9_.-]', '_', j['id'])))
                wj = {k: j[k] for k in ('id', 'engine', 'module', 'func', 'params') if k in j}
                wj['values'] = r['cex']['values']
                wj['failed_clauses'] = rp.get('failed')
                wj['witness_func'] = j.get('witness_func')
                json.dump(wj, open(path, 'w'), indent=1, default=str)
                violations.append((j['id'], path, rp.get('failed')))
            else:
                errors.append('%s: counterexample did not reproduce on the real stack (%s) values=%s failed=%s' % (
                    j['id'], rp.get('error', 'all clauses true'), json.dumps(r['cex']['values'], default=str)[:600], r['cex'].get('failed_clauses')))
        elif st == 'inconclusive':
            inconclusive.append('%s: %s' % (j['id'], r.get('detail')))
        else:
            errors.append('%s: %s\n%s' % (j['id'], r.get('detail'), (r.get('traceback') or '')[-1500:]))
    wall = time.time() - t0
    ev = registry.evidence(prop, tier, seed, results, pre, known, violations, inconclusive, errors, wall)
    os.makedirs(EVIDENCE_DIR, exist_ok=True)
    json.dump(ev, open(os.path.join(EVIDENCE_DIR, '%s.json' % prop), 'w'), indent=1, default=str)
    for line in known_lines:
        print(line)
    n_ok = sum(1 for r in results if r['status'] == 'holds')
    print('%s %s: %d obligations, %d hold, %d violations, %d inconclusive, %d harness errors, %.1fs' % (
        prop, tier, len(results), n_ok, len(violations), len(inconclusive), len(errors), wall))
    if violations:
        for oid, path, failed in violations:
            print('VIOLATION property=%s replay=%s' % (prop, path))
            print('  obligation %s failed clauses: %s' % (oid, failed))
        return 1
    if errors:
        for e in errors:
            print('HARNESS-ERROR: ' + e)
        return 3
    if inconclusive:
        for e in inconclusive:
            print('INCONCLUSIVE: ' + e)
        return 2
    return 0


if __name__ == '__main__':
    sys.exit(main(sys.argv))
