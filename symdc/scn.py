"""Scenario scaffolding shared by the table-level obligations: symbolic pre-state (DESIGN §3.4),
configuration, page_count stub, snapshots, file-system part of Inv."""
import z3

from . import zpath, sqlmodel, env, state, sx
from .sx import And, Or, Not, Implies, IfI, IfR, EqI, NeI, EqR, NeR, LtR, LeR, AndL, OrL, simp, isz
from .zpath import I, R, B, Ctx, assume, flag
from .sqlmodel import Cell, NULL, INT, REAL, TEXT, BLOB, iv, cell_eq
from .state import Nullable, Table, Item, zand, zor, zcount, CACHE_COLS

DIR = '/m'
KINDS = ('int', 'file')  # row kinds of the symbolic pre-state: inline integer / file-backed binary


def fname(i):
    return 'f%d/5b/file%d.val' % (i, i)  # a directory name Disk.filename can produce too (world.urandom_prefix)


def content(i):
    return ('<content of file %d>' % i).encode()


def is_prefile(rel):
    import re
    return re.fullmatch(r'f\d+/5b/file\d+\.val', rel) is not None


class _PoolKey:
    def __init__(self, ki, pykey, dbk, raw):
        self.ki, self.pykey, self.dbk, self.raw = ki, pykey, dbk, raw


class Scn:
    """one symbolic cache state + configuration on world `w`"""

    def __init__(self, w, n, policy='least-recently-stored', kinds=KINDS, statistics=False, sym_cfg=True,
                 min_file_size=2 ** 15, alive_sym=True, key_lo=None, key_hi=None, rows=None, cull_limit=None,
                 expire_pos=True, tags=True, settings=None, keypool=None, value_bits=40):
        self.w = w
        self.n = n
        self.policy = policy
        st = dict(eviction_policy=policy, disk_min_file_size=min_file_size)
        if settings:
            st.update(settings)
        self.cache = c = w.new_cache(None, **st)
        c._con  # open the connection before events are counted
        self.vars = []
        if sym_cfg:
            c.cull_limit = self.v_int('cull_limit', 0, n + 1) if cull_limit is None else cull_limit
            c.size_limit = self.v_int('size_limit', 0, 2 ** 50)
        if statistics is True:
            c.statistics = 1
        elif statistics == 'sym':
            c.statistics = self.v_int('statistics', 0, 1)
        self.pcs = []
        w.set_page_count(c, self.page_count)
        self.specs = []
        self.rowvars = []
        prev_rowid = None
        for i in range(n):
            rv = {}
            rowid = self.v_int('r%d.rowid' % i, 1, 2 ** 62)
            if prev_rowid is not None:
                assume(rowid.z > prev_rowid.z)
            prev_rowid = rowid
            if keypool is not None:
                # keys of mixed types from a concrete pool (symbolic choice, realised by forks): text, bytes, numbers,
                # pickled keys and bytes equal to another key's serialized form
                ki = int(self.v_int('r%d.key_i' % i, 0, len(keypool) - 1))
                pykey = keypool[ki]
                dbk, rawflag = c._disk.put(pykey)
                key = _PoolKey(ki, pykey, dbk, rawflag)
            else:
                key = self.v_int('r%d.key' % i, key_lo if key_lo is not None else -2 ** 63, key_hi if key_hi is not None else 2 ** 63 - 1)
            st_ = self.v_real('r%d.store_time' % i)
            at_ = self.v_real('r%d.access_time' % i)
            ac_ = self.v_int('r%d.access_count' % i, 0, 2 ** 40)
            en = self.v_bool('r%d.expire_null' % i)
            ev = self.v_real('r%d.expire_time' % i)
            if expire_pos:
                assume(ev.z > 0)
            if tags:
                tn = self.v_bool('r%d.tag_null' % i)
                tv = self.v_int('r%d.tag' % i, 0, 2)
                tag = Nullable(tn, tv)
            else:
                tn, tv, tag = None, None, None
            alive = self.v_bool('r%d.alive' % i) if alive_sym else True
            spec = dict(rowid=rowid, key=(key.dbk if keypool is not None else key), raw=(int(key.raw) if keypool is not None else 1), store_time=st_, access_time=at_, access_count=ac_,
                        expire_time=Nullable(en, ev), tag=tag, _alive=alive, _tb=self.v_real('r%d.tb' % i))
            rv.update(rowid=rowid, key=key, store_time=st_, access_time=at_, access_count=ac_, expire_null=en,
                      expire_time=ev, tag_null=tn, tag=tv, alive=alive)
            if 'int' in kinds and 'file' in kinds:
                isfile = self.v_bool('r%d.isfile' % i)
            else:
                isfile = B(z3.BoolVal('file' in kinds and 'int' not in kinds))
            val = self.v_int('r%d.value' % i, -2 ** value_bits, 2 ** value_bits - (1 if value_bits >= 63 else 0))
            size = self.v_int('r%d.size' % i, 0, 2 ** 40)
            rv.update(isfile=isfile, value=val, size=size)
            fz = sx._fold(isfile.z)
            fn_id = w.intern_text(fname(i))
            if 'none' in kinds:
                # the Python value None: stored inline as a pickle (mode 4)
                import pickle
                isnone = self.v_bool('r%d.isnone' % i)
                nz = sx._fold(isnone.z)
                rv['isnone'] = isnone
                none_id = sx.simp(w.bind(pickle.dumps(None, protocol=pickle.HIGHEST_PROTOCOL)).num)
                spec['mode'] = Cell(INT, IfR(fz, 2, IfR(nz, 4, 1)))
                spec['filename'] = Cell(IfI(fz, TEXT, NULL), IfR(fz, fn_id, 0))
                spec['value'] = Cell(IfI(fz, NULL, IfI(nz, BLOB, INT)), IfR(fz, 0, IfR(nz, none_id, val.z)))
            else:
                spec['mode'] = Cell(INT, IfR(fz, 2, 1))
                spec['filename'] = Cell(IfI(fz, TEXT, NULL), IfR(fz, fn_id, 0))
                spec['value'] = Cell(IfI(fz, NULL, INT), IfR(fz, 0, val.z))
            spec['size'] = Cell(INT, IfR(fz, size.z, 0))
            # the file exists iff the row is alive and file-backed (Inv)
            al = sx._fold(alive.z) if isinstance(alive, B) else True
            w.add_prefile(fname(i), content(i), size, simp(And(al, fz)))
            self.specs.append(spec)
            self.rowvars.append(rv)
        # distinct keys among alive rows (unique index)
        for i in range(n):
            for j in range(i + 1, n):
                if keypool is not None:
                    if self.rowvars[i]['key'].ki == self.rowvars[j]['key'].ki:
                        assume(False)
                else:
                    assume(self.rowvars[i]['key'].z != self.rowvars[j]['key'].z)
        w.install_rows(c, self.specs)
        self.T0 = w.snapshot(c)

    # -- named inputs
    def v_int(self, name, lo=None, hi=None):
        v = self.w.int(name, lo, hi)
        self.vars.append(v.z)
        return v

    def v_real(self, name, lo=None, hi=None):
        lo = -2 ** 62 if lo is None else lo
        hi = 2 ** 62 if hi is None else hi
        v = self.w.real(name, lo, hi)
        self.vars.append(v.z)
        return v

    def v_bool(self, name):
        v = self.w.bool(name)
        self.vars.append(v.z)
        return v

    def page_count(self):
        k = len(self.pcs)
        v = self.v_int('pc%d' % k, 1, 2 ** 40)
        self.pcs.append(v)
        return v

    def snapshot(self):
        return self.w.snapshot(self.cache)

    def clock(self, k):
        """pre-declared clock readings t0 <= t1 <= ... (the world's clock creates the same names)"""
        return [z3.Int('t%d' % i) for i in range(k)]

    # -- file-system part of Inv: a *.val file exists iff a present row names it, with the recorded size
    def fs_inv(self, T, allow_orphans=False):
        w = self.w
        conj = []
        items = [it for it in T.items if it.present is not False]
        known = []
        for rel, ex, size, complete in w.val_files(self.cache):
            fid = w.intern_text(rel)
            known.append(fid)
            names = [And(it.present, EqI(it.c['filename'].cls, TEXT), EqR(it.c['filename'].num, fid)) for it in items]
            conj.append(Implies(OrL(names), ex) if allow_orphans else sx.EqB(ex, OrL(names)))
            conj.append(Implies(ex, AndL(Implies(nm, EqR(it.c['size'].num, size)) for nm, it in zip(names, items))))
            conj.append(Implies(And(ex, OrL(names)), bool(complete)) if allow_orphans else Implies(ex, bool(complete)))
        # every present row with a file name names a known file
        for it in items:
            conj.append(Implies(And(it.present, EqI(it.c['filename'].cls, TEXT)), OrL(EqR(it.c['filename'].num, k) for k in known)))
        return AndL(conj)
