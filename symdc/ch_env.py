"""Environment for the E2 (CrossHair) obligations: the real diskcache modules loaded from the tree under
test with a minimal pure-Python file-system model behind core.open / os / op / io (CrossHair realises
symbolic values at C boundaries, so io.BytesIO/StringIO, zlib.adler32 and os are replaced by Python code).
The same harness functions are re-run concretely against the real file system for replay."""
import os
import shutil
import tempfile
import types

from . import loader, ch_codec

ch_codec.selftest()  # once per process, concretely, before any symbolic run

_L = None


def L():
    global _L
    if _L is None:
        _L = loader.load(pkgname='dcsym_ch', cut=False, modules=['core', 'persistent', 'fanout', 'recipes'])
        _L.fanout.tempfile = __import__('tempfile')
        _L._orig = {k: _L.core.__dict__.get(k) for k in ('open', 'os', 'op', 'io', 'zlib')}
    return _L


class FS:
    def __init__(self):
        self.files = {}
        self.dirs = set()
        self.ctr = 0


class Writer:
    def __init__(self, fs, path, mode, encoding, newline, errors=None):
        self.fs, self.path, self.mode, self.encoding, self.newline, self.errors = fs, path, mode, encoding, newline, errors
        self.buf = []
        if path in fs.files:
            raise FileExistsError(path)
        fs.files[path] = None  # incomplete

    def write(self, chunk):
        if 'b' in self.mode:
            self.buf.append(bytes(chunk))
        else:
            if not isinstance(chunk, str):
                raise TypeError('write() argument must be str')
            s = chunk
            if self.newline is None:
                s = s.replace('\n', os.linesep)
            elif self.newline not in ('', '\n'):
                s = s.replace('\n', self.newline)
            if self.errors not in (None, 'strict') and (self.encoding or 'utf-8').lower().replace('_', '-') in ('utf-8', 'utf8'):
                # CrossHair models the strict codec itself; other error handlers would realise the string
                self.buf.append(ch_codec.utf8_encode(s, self.errors or 'strict'))  # UnicodeEncodeError for lone surrogates
            else:
                self.buf.append(s.encode(self.encoding, self.errors or 'strict'))
        return len(chunk)

    def __enter__(self):
        return self

    def __exit__(self, *a):
        self.fs.files[self.path] = b''.join(self.buf)
        return False


class Reader:
    def __init__(self, fs, path, mode, encoding, newline, errors=None):
        if fs.files.get(path) is None:
            raise FileNotFoundError(path)
        self.data, self.mode, self.encoding, self.newline, self.errors = fs.files[path], mode, encoding, newline, errors
        self.pos = 0

    def read(self, n=-1):
        if 'b' in self.mode:
            d = self.data
        else:
            if self.errors not in (None, 'strict') and (self.encoding or 'utf-8').lower().replace('_', '-') in ('utf-8', 'utf8'):
                d = ch_codec.utf8_decode(self.data, self.errors or 'strict')
            else:
                d = self.data.decode(self.encoding, self.errors or 'strict')
            if self.newline is None:
                d = d.replace('\r\n', '\n').replace('\r', '\n')
        if n is None or n < 0:
            r = d[self.pos:]
            self.pos = len(d)
        else:
            r = d[self.pos:self.pos + n]
            self.pos += len(r)
        return r

    def readline(self):
        d = self.data
        j = d.find(b'\n', self.pos)
        end = len(d) if j < 0 else j + 1
        r = d[self.pos:end]
        self.pos = end
        return r

    def __enter__(self):
        return self

    def __exit__(self, *a):
        return False


class Chunks:
    """replacement for io.BytesIO / io.StringIO as used by Disk.store: an iterable of 1-2 chunks"""
    split = 0

    def __init__(self, data):
        self.data = bytes(data) if isinstance(data, memoryview) else data

    def __iter__(self):
        k = Chunks.split
        if 0 < k < len(self.data):
            yield self.data[:k]
            yield self.data[k:]
        else:
            yield self.data

    def read(self, n=-1):
        pos = getattr(self, 'pos', 0)
        r = self.data[pos:] if n is None or n < 0 else self.data[pos:pos + n]
        self.pos = pos + len(r)
        return r

    def readline(self):
        pos = getattr(self, 'pos', 0)
        j = self.data.find(b'\n', pos)
        end = len(self.data) if j < 0 else j + 1
        r = self.data[pos:end]
        self.pos = end
        return r


def adler32(data, value=1):
    """pure-Python zlib.adler32 (RFC 1950)"""
    a, b = value & 0xffff, (value >> 16) & 0xffff
    for x in data:
        a = (a + x) % 65521
        b = (b + a) % 65521
    return (b << 16) | a


_G = None


def G():
    """the frozen baseline copy of core.py (reference encoders for C18)"""
    global _G
    if _G is None:
        here = os.path.dirname(os.path.dirname(os.path.abspath(__file__)))
        _G = loader.load(repo=os.path.join(here, 'golden'), pkgname='dcgold_ch', cut=False, modules=['core'])
    return _G


def setup_model(split=0, mod=None, fs=None):
    m = mod or L()
    core = m.core
    fs = fs or FS()
    Chunks.split = split

    def m_open(path, mode='r', buffering=-1, encoding=None, errors=None, newline=None, **kw):
        if 'x' in mode or 'w' in mode:
            if os.path.dirname(path) not in fs.dirs:
                raise FileNotFoundError(path)
            return Writer(fs, path, mode, encoding, newline, errors)
        return Reader(fs, path, mode, encoding, newline, errors)

    def makedirs(d, *a, **k):
        if d in fs.dirs:
            raise FileExistsError(d)
        fs.dirs.add(d)

    def urandom(n):
        fs.ctr += 1
        return bytes([(fs.ctr + i) % 256 for i in range(n)])

    core.open = m_open
    core.os = types.SimpleNamespace(makedirs=makedirs, urandom=urandom, remove=lambda p: fs.files.pop(p), removedirs=lambda d: None,
                                    getpid=os.getpid, linesep=os.linesep)
    core.op = types.SimpleNamespace(join=lambda *a: '/'.join(a), split=lambda p: tuple(p.rsplit('/', 1)),
                                    getsize=lambda p: len(fs.files[p]), exists=lambda p: fs.files.get(p) is not None)
    core.io = types.SimpleNamespace(BytesIO=Chunks, StringIO=Chunks)
    import zlib as _zlib
    core.zlib = types.SimpleNamespace(adler32=adler32, compress=_zlib.compress, decompress=_zlib.decompress)
    return core, fs, '/m'


class RealFS:
    def __init__(self, root):
        self.root = root

    @property
    def files(self):
        out = {}
        for dp, ds, fs in os.walk(self.root):
            for f in fs:
                p = os.path.join(dp, f)
                out[p] = open(p, 'rb').read()
        return out


def setup_real():
    """bind the real components again (used to replay a counterexample concretely)"""
    m = L()
    core = m.core
    for k, v in m._orig.items():
        if v is None:
            core.__dict__.pop(k, None)
        else:
            core.__dict__[k] = v
    core.__dict__.pop('open', None)
    root = tempfile.mkdtemp(prefix='verif-e2-')
    return core, RealFS(root), root


def cleanup_real(root):
    shutil.rmtree(root, ignore_errors=True)


MODE = 'model'


def setup(split=0):
    if MODE == 'model':
        return setup_model(split)
    return setup_real()


def sqlite_value_roundtrip(v):
    """assumed contract of a SQLite BLOB-affinity column for the value types Disk.store emits:
    int64 / float / str / bytes-like come back unchanged, except that NaN is stored as NULL"""
    if isinstance(v, int) and type(v) is not int:
        v = int(v)  # sqlite3 adapts bool / IntEnum as plain integers and hands back an int
    if MODE == 'real':
        import sqlite3
        con = sqlite3.connect(':memory:')
        try:
            con.execute('CREATE TABLE t (v BLOB)')
            con.execute('INSERT INTO t VALUES (?)', (v,))
            ((out,),) = con.execute('SELECT v FROM t').fetchall()
            return out
        finally:
            con.close()
    if isinstance(v, float) and v != v:
        return None
    if isinstance(v, memoryview):
        return bytes(v)
    return v
