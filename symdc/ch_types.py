"""Importable subclasses of the built-in value types (pickle needs a module path): a value of such a type must come back
with its own type, i.e. be pickled rather than stored as the plain base value."""
import enum


class SubStr(str):
    pass


class SubBytes(bytes):
    pass


class SubFloat(float):
    pass


class SubInt(int):
    pass


class Colour(enum.IntEnum):
    RED = 1
    BLUE = 2
