"""C17: Cache.check() / check(fix=True) on a cache directory damaged behind the library's back.
State = a valid symbolic cache (<= N rows, inline or file-backed) + damage: each value file deleted /
truncated / extended (size delta symbolic), unknown files, empty directories at two levels, counter offsets."""
import warnings

from symdc import sx, spec, state, scn as scn_mod, sqlmodel, env
from symdc.sx import (And, Or, Not, Implies, EqI, NeI, EqR, NeR, LtR, LeR, AddR, AndL, OrL, Count, simp, isz, IfI)
from symdc.zpath import I, R, B, assume, flag
from symdc.sqlmodel import Cell, CNULL, NULL, INT, TEXT
from symdc.state import same_cols, CACHE_COLS
from symdc.spec import unchanged
from obligations.cache_ops import Ctx, zv, directive_aware


def kinds_of(ws):
    out = {'notfound': 0, 'size': 0, 'unknown': 0, 'emptydir': 0, 'count': 0, 'sizesum': 0, 'other': 0}
    for wn in ws:
        m = str(wn.message)
        if m.startswith('file not found'):
            out['notfound'] += 1
        elif m.startswith('wrong file size'):
            out['size'] += 1
        elif m.startswith('unknown file'):
            out['unknown'] += 1
        elif m.startswith('empty directory'):
            out['emptydir'] += 1
        elif m.startswith('Settings.count'):
            out['count'] += 1
        elif m.startswith('Settings.size'):
            out['sizesum'] += 1
        else:
            out['other'] += 1
    return out


@directive_aware
def ob_check(w, P):
    N = P['N']
    fix = P.get('fix', False)
    x = Ctx(w, P, tags=False, sym_cfg=False)
    c = x.c
    s = x.s
    T_valid = x.T0
    # ---- damage
    deleted, delta = [], []
    for i, rv in enumerate(s.rowvars):
        assume(sx.zB(And(rv['size'].z >= 1, rv['size'].z <= 2)))
        d = s.v_bool('del%d' % i)
        dl = s.v_int('delta%d' % i, -1, 1)
        deleted.append(sx._fold(d.z))
        delta.append(dl)
        w.damage_file(c, scn_mod.fname(i), sx._fold(d.z), rv['size'] + dl)
    extra = s.v_bool('extra')
    w.add_extra(c, 'xx/yy/extra.val', sx._fold(extra.z), size=1)
    # a stray file directly in the cache directory, next to the database and its journal files
    extra_top = s.v_bool('extra_top')
    w.add_extra(c, 'stray.tmp', sx._fold(extra_top.z), size=1)
    w.add_extra(c, 'xx/yy', True, is_dir=True)
    if P.get('empty_dirs', True):
        w.add_extra(c, 'ee', True, is_dir=True)
        w.add_extra(c, 'pp/qq', True, is_dir=True)
        w.add_extra(c, 'aa/bb/cc', True, is_dir=True)  # deeper than the library's own two-level layout
    dc = s.v_int('dcount', -1, 1)
    ds = s.v_int('dsize', -1, 1)
    w.bump_counter(c, 'count', zv(dc))
    w.bump_counter(c, 'size', zv(ds))
    T0 = x.T0 = s.snapshot()
    listing0 = w.dir_listing(c)
    # ---- expected findings (reference)
    items = [it for it in T_valid.items if it.present is not False]
    isfile = [And(it.present, EqI(it.c['filename'].cls, TEXT)) for it in items]
    exp_notfound = Count(And(f, dl_) for f, dl_ in zip(isfile, deleted))
    exp_size = Count(And(f, Not(dl_), NeR(zv(dd), 0)) for f, dl_, dd in zip(isfile, deleted, delta))
    exp_unknown = Count([sx._fold(extra.z), sx._fold(extra_top.z)])
    exp_count = IfI(NeR(zv(dc), 0), 1, 0)
    # Settings.size is compared with SUM(size) *after* wrong sizes were repaired when fix is on
    if not w.is_real:
        c._con.db.realise_filenames = True  # check() puts the paths into a set: hand them out as real strings (forks)
    if P.get('busy'):
        x.arm_busy()
    x.begin()
    with warnings.catch_warnings():
        warnings.simplefilter('always')
        try:
            ws1 = c.check(fix=fix, retry=P.get('retry', False))
        except w.L.core.Timeout:
            x.end()
            flag('timeout_raised')
            x.add('C17,C14', 'a check that cannot get the lock raises Timeout only when retry was not requested', bool(P.get('busy')) and not P.get('retry'))
            x.add('C17,C14', 'and has changed no row and no counter', And(unchanged(T0, x.T1), spec.same_count(T0, x.T1), EqR(T0.settings['count'].num, x.T1.settings['count'].num),
                                                                         EqR(T0.settings['size'].num, x.T1.settings['size'].num)))
            return x.result()
        if P.get('busy'):
            x.add('C17,C14', 'a check that met a busy lock without retry does not return normally', bool(P.get('retry')) or x.busy_attempts[0] == 0)
        k1 = kinds_of(ws1)
        T1 = s.snapshot()
        ws2 = c.check() if fix else None
    x.end()
    x.add('C17', 'check reports every missing value file', EqI(k1['notfound'], exp_notfound))
    x.add('C17', 'check reports every value file of the wrong size', EqI(k1['size'], exp_size))
    x.add('C17', 'check reports every unknown file', EqI(k1['unknown'], exp_unknown))
    x.add('C17', 'check reports a wrong item counter', EqI(k1['count'], exp_count))
    x.add('C17', 'check reports nothing else than the documented kinds', k1['other'] == 0)
    if not fix:
        flag('report_only')
        x.add('C17', 'check() without fix changes no row and no counter', And(unchanged(T0, T1), spec.same_count(T0, T1), EqR(T0.settings['count'].num, T1.settings['count'].num),
                                                                              EqR(T0.settings['size'].num, T1.settings['size'].num)))
        lst1 = w.dir_listing(c)
        same_fs = set(listing0) == set(lst1) and all(sorted(p for p, e in listing0[d][1]) == sorted(p for p, e in lst1[d][1]) for d in listing0)
        x.add('C17', 'check() without fix changes no file and no directory', same_fs)
    else:
        flag('fixed')
        k2 = kinds_of(ws2)
        x.add('C17', 'after check(fix=True) a second check reports nothing', AndL(k2[k] == 0 for k in k2))
        conj = []
        for it, f, dl_, dd in zip(items, isfile, deleted, delta):
            p = T1.lookup(it.c['key'], it.c['raw'])
            undamaged = Or(Not(f), And(Not(dl_), EqR(zv(dd), 0)))
            conj.append(Implies(And(it.present, undamaged), And(p.present, same_cols(p, it, CACHE_COLS))))
            conj.append(Implies(And(f, dl_), Not(p.present)))
            conj.append(Implies(And(f, Not(dl_), NeR(zv(dd), 0)), And(p.present, EqR(p.c['size'].num, AddR(it.c['size'].num, zv(dd))))))
        x.add('C17', 'undamaged items are untouched, items without a file are dropped, wrong sizes are corrected', AndL(conj))
        x.add('C17,C08', 'after the repair counters match the rows', state.inv_table(T1))
        x.add('C17,C08', 'after the repair every remaining row has its file with the recorded size and no value file is unreferenced', s.fs_inv(T1))
    return x.result()


def ob_check_reldir(w, P):
    """the cache was opened through a RELATIVE directory path (as in the documentation): check(fix=True) removes unknown files and
    empty directories there too, and a second check reports nothing; the stored item survives"""
    import os
    L = w.L
    core = L.core
    w.clock_fn = lambda: 1000.0
    cl = []
    old_cwd = None
    spelling = P.get('spelling', 'relative')
    if spelling != 'relative':
        # the same directory spelled with a trailing separator
        rel = w.dir + '/'
    elif w.is_real:
        old_cwd = os.getcwd()
        os.chdir(w.root)
        rel = 'relcache'
    else:
        rel = 'relcache'
        w.fs.add_dir(rel)
    try:
        kind = P.get('kind', 'cache')
        if kind == 'fanout':
            c = L.fanout.FanoutCache(rel, shards=2, disk_min_file_size=0)
            shard_dir = c._shards[1]._directory
        else:
            c = core.Cache(rel, disk_min_file_size=0)
            shard_dir = c._directory
        c.set(1, b'file-backed-value')
        stray_sub = bool(w.bool('stray_in_subdir'))
        stray_top = bool(w.bool('stray_at_top'))

        class _C:
            _directory = shard_dir
        if stray_sub:
            w.add_extra(_C, 'ab/cd/stray.val', True, size=1)
        if stray_top:
            w.add_extra(_C, 'stray.tmp', True, size=1)
        w.add_extra(_C, 'ee/ff', True, is_dir=True)
        w.start_events()
        with warnings.catch_warnings():
            warnings.simplefilter('always')
            ws1 = c.check(fix=True)
            ws2 = c.check()
        w.stop_events()
        k1, k2 = kinds_of(ws1), kinds_of(ws2)
        cl.append(('C17', 'check(fix=True) on a relative directory reports every unknown file', k1['unknown'] == int(stray_sub) + int(stray_top)))
        cl.append(('C17', 'and afterwards a second check reports nothing (the files and directories really are gone)', all(k2[k] == 0 for k in k2)))
        got = c.get(1)
        cl.append(('C17,C01', 'the stored item is untouched', got == b'file-backed-value' if isinstance(got, bytes) else got is not None))
    finally:
        if old_cwd is not None:
            os.chdir(old_cwd)
    flag('nontrivial')
    return cl

def ob_check_intruded(w, P):
    """check() / check(fix=True) of a healthy cache while another client replaces, removes or adds a file-backed item at a symbolic
    event of the check: whatever the check reads about rows and files it reads under the write lock, so it reports nothing,
    repairs nothing, and the other client's call is either refused (Timeout) or in full effect afterwards"""
    L = w.L
    core = L.core
    w.clock_fn = lambda: 1000.0
    cl = []
    c = core.Cache(w.dir, disk_min_file_size=0)
    c.set(1, b'old-file-backed-value')
    c.set(2, 22)
    other = w.clone_handle(c)
    w.preconnect(other, (w.pid + 100, 1))
    opB = P['b']
    res = {}

    def intruder():
        old = (w.pid, w.tid)
        w.pid, w.tid = w.pid + 100, 1
        try:
            try:
                if opB == 'replace':
                    res['B'] = other.set(1, b'new-file-backed-value!')
                elif opB == 'delete':
                    res['B'] = other.delete(1)
                elif opB == 'insert':
                    res['B'] = other.set(3, b'third-file-backed-value')
            except core.Timeout:
                res['B'] = 'timeout'
        finally:
            w.pid, w.tid = old
    w.interfere_at = w.int('at', 0, P.get('max_events', 16))
    w.interfere_hook = intruder
    w.start_events()
    with warnings.catch_warnings():
        warnings.simplefilter('always')
        try:
            ws1 = c.check(fix=P['fix'])
            err = None
        except core.Timeout:
            ws1, err = [], 'timeout'
    w.stop_events()
    w.interfere_hook = None
    if 'B' not in res:
        return cl
    flag('interleaved')
    with warnings.catch_warnings():
        warnings.simplefilter('always')
        ws2 = c.check()
    k1, k2 = kinds_of(ws1), kinds_of(ws2)
    cl.append(('C17,C05', 'a check of a healthy cache reports nothing although another client writes meanwhile (%s)' % [str(x_.message)[:40] for x_ in ws1],
               all(k1[k] == 0 for k in k1 if k != 'emptydir')))
    cl.append(('C17,C08', 'and a second check reports nothing', all(k2[k] == 0 for k in k2 if k != 'emptydir')))
    done = res['B'] != 'timeout'
    if done:
        flag('intruder_admitted')
    v1 = c.get(1)
    want1 = {'replace': b'new-file-backed-value!', 'delete': None, 'insert': b'old-file-backed-value'}[opB] if done else b'old-file-backed-value'
    cl.append(('C17,C05', "the other client's call is in full effect or was refused; nothing else changed",
               v1 == want1 and c.get(2) == 22 and c.get(3) == (b'third-file-backed-value' if done and opB == 'insert' else None)
               and len(c) == (2 + (1 if done and opB == 'insert' else 0) - (1 if done and opB == 'delete' else 0))))
    flag('nontrivial')
    return cl


def ob_check_il(w, P):
    """check(fix) and a store by another client, both suspended part-way (the store has written its value file and has not yet
    asked for the lock when the check runs): afterwards the stored item has its file, or the store was refused"""
    L = w.L
    core = L.core
    w.clock_fn = lambda: 1000.0
    cl = []
    c = core.Cache(w.dir, disk_min_file_size=0)
    c.set(1, b'old-file-backed-value')
    other = w.clone_handle(c)
    w.preconnect(other, (w.pid + 100, 1))
    box = {}

    def run_a():
        with warnings.catch_warnings(record=True) as rec:
            warnings.simplefilter('always')
            try:
                ws = c.check(fix=P['fix'], retry=True)  # the returned list: catch_warnings does not record reliably off the main thread
                box['A'] = [str(x_.message)[:60] for x_ in ws]
            except core.Timeout:
                box['A'] = 'timeout'
            except Exception as e:
                # VACUUM / PRAGMA integrity_check are issued outside the Timeout protocol: with the lock held elsewhere the check is
                # refused with sqlite3.OperationalError (check is a maintenance call, not one of the data operations of C14)
                if type(e).__name__ != 'OperationalError':
                    raise
                box['A'] = 'locked'

    def run_b():
        try:
            box['B'] = other.set(3, b'third-file-backed-value', retry=True)
        except core.Timeout:
            box['B'] = 'timeout'
    at = w.int('at', 0, P.get('max_events', 8))
    at2 = w.int('at2', 0, P.get('max_events', 8))
    w.start_events()
    il = w.interleave(run_a, run_b, at, at2, id_a=(w.pid, 1), id_b=(w.pid + 100, 1))
    w.stop_events()
    if not il.b_started:
        return cl
    if 'check-fix-removes-pending-value-file' in P.get('exclude', []) and P['fix'] and isinstance(box.get('A'), list) and any(m.startswith('unknown file') for m in box['A']):
        # known finding: the repairing check met the value file of a store that had not inserted its row yet, and removed it
        flag('nontrivial')
        return [('C17,C05,C08,C01', 'excluded: known finding check-fix-removes-pending-value-file', True)]
    with warnings.catch_warnings(record=True):
        warnings.simplefilter('always')
        rec2 = c.check()
    found = [str(x_.message)[:60] for x_ in rec2 if not str(x_.message).startswith('empty directory')]
    cl.append(('C17,C05,C08', 'after a check that overlapped a store the cache is consistent (%s; the overlapping check said %s)' % (found, box.get('A')), len(found) == 0))
    got = c.get(3)
    cl.append(('C17,C05,C01', 'the item stored meanwhile has its value (or the store was refused)', (got == b'third-file-backed-value') if box.get('B') is True else got is None))
    cl.append(('C17', 'the old item is untouched', c.get(1) == b'old-file-backed-value'))
    flag('nontrivial')
    return cl


def jobs(tier):
    out = []
    Ns = [1, 2] if tier == 'quick' else [1, 2, 3]
    F = ['core.Cache.check', 'core.Cache.reset', 'core.Cache._transact']
    for N in Ns:
        for fix in (False, True):
            out.append(dict(id='check.N=%d.fix=%s' % (N, fix), func='ob_check', params=dict(N=N, fix=fix), tags=['C17', 'C08'], functions=F, weight=N * 10,
                            must_reach=['fixed' if fix else 'report_only'], **({'budget_s': 6000} if N >= 3 else {})))  # three rows: ~35 min
    for b in ('replace', 'delete', 'insert'):
        for fix in (False, True):
            out.append(dict(id='check.intruded.%s.fix=%s' % (b, fix), func='ob_check_intruded', params=dict(b=b, fix=fix), tags=['C17', 'C05'], functions=F + ['core.Cache.set', 'core.Cache.delete'],
                            weight=6, twin=False, must_reach=['interleaved', 'intruder_admitted']))
    for fix in (False, True):
        out.append(dict(id='check.il.fix=%s' % fix, func='ob_check_il', params=dict(fix=fix), tags=['C17', 'C05'], functions=F + ['core.Cache.set', 'core.Disk.store'], weight=8, twin=False,
                        must_reach=['both_suspended']))
    for kind in ('cache', 'fanout'):
        out.append(dict(id='check.reldir.%s' % kind, func='ob_check_reldir', params=dict(kind=kind), tags=['C17'], functions=F + ['core.Disk.remove'], weight=5, twin=False))
        for sp in ('trailing',):
            out.append(dict(id='check.spelling.%s.%s' % (sp, kind), func='ob_check_reldir', params=dict(kind=kind, spelling=sp), tags=['C17'], functions=F + ['core.Disk.remove'], weight=5, twin=False))
    for fix in (False, True):
        out.append(dict(id='check.busy.noretry.fix=%s' % fix, func='ob_check', params=dict(N=1, fix=fix, busy=1), tags=['C17', 'C14'], functions=F, weight=10, must_reach=['timeout_raised']))
        out.append(dict(id='check.busy.retry.fix=%s' % fix, func='ob_check', params=dict(N=1, fix=fix, busy=1, retry=True), tags=['C17', 'C14'], functions=F, weight=20,
                        must_reach=['lock_busy', 'fixed' if fix else 'report_only']))
    return out
