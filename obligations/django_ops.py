"""C19: the real DjangoCache (and the BaseCache methods built on it) over a real FanoutCache on model databases.
Pre-state: entries under the made keys of a small pool of (name, version) pairs, each present or not, with symbolic
value and expiry; timeout class, default timeout, values and the clock symbolic.  Oracle: the Django cache contract
computed with the functional reference dictionary (DESIGN App. A.4)."""
from symdc import sx, spec, state, scn as scn_mod, sqlmodel, env, refmodel as rm
from symdc.sx import (And, Or, Not, Implies, EqI, NeI, EqR, NeR, LtR, LeR, AddR, SubR, AndL, OrL, Count, simp, isz, IfR)
from symdc.zpath import I, R, B, assume, flag
from symdc.sqlmodel import Cell, CNULL, NULL, INT, REAL, TEXT, cell_eq
from symdc.state import Item, Table, Nullable, same_cols, CACHE_COLS, ALL_BUT_ROWID
from obligations.cache_ops import zv, is_num_like, directive_aware, Outcome

POOL = [('a', 1), ('a', 2), ('b', 1), ('a', 0)]  # version 0 is falsy: `version or default` would misroute it
NOROWID = ALL_BUT_ROWID


def bool_is(ret, formula):
    """the call returned a truth value (a bool, or its symbolic stand-in) equal to `formula`"""
    if isinstance(ret, B):
        return sx.EqB(formula, sx._fold(ret.z))
    return isinstance(ret, bool) and sx.zB(sx.EqB(formula, ret))


class DScn:
    def __init__(self, w, P):
        self.w = w
        L = w.L
        shards = P.get('shards', 1)
        prefix = P.get('prefix', 'p')
        w.clock_fn = lambda: 0.0  # construction is not the subject: concrete clock while the real __init__ methods run
        try:
            self.dc = dc = L.djangocache.DjangoCache(w.dir, {'SHARDS': shards, 'KEY_PREFIX': prefix, 'VERSION': 1, 'OPTIONS': dict({'cull_limit': 0, 'size_limit': shards * 2 ** 28}, **P.get('options', {}))})
            for sh in dc._cache._shards:
                sh._con
        finally:
            w.clock_fn = None
        self.fc = dc._cache
        self.vars = []
        # default timeout: None (forever) or any integer number of seconds (incl. 0 and negative)
        dn = w.bool('default_timeout_null')
        dv = w.real('default_timeout', -2 ** 40, 2 ** 40)
        dc.default_timeout = None if dn else dv
        self.rowvars = []
        per_shard = {i: [] for i in range(shards)}
        rid = {i: 0 for i in range(shards)}
        self.keys = {}
        for j, (name, ver) in enumerate(POOL):
            mk = dc.make_key(name, version=ver)
            self.keys[(name, ver)] = mk
            si = self.fc._hash(mk) % shards
            rid[si] += 1
            alive = w.bool('e%d.present' % j)
            val = w.int('e%d.value' % j, -2 ** 40, 2 ** 40)
            en = w.bool('e%d.expire_null' % j)
            ev = w.real('e%d.expire_time' % j, 1, 2 ** 62)
            st_ = w.real('e%d.store_time' % j, 0, 2 ** 62)
            spec_ = dict(rowid=rid[si], key=mk, raw=1, store_time=st_, access_time=st_, access_count=0, expire_time=Nullable(en, ev), tag=None, size=0, mode=1,
                         filename=None, value=val, _alive=alive, _tb=0)
            per_shard[si].append(spec_)
            self.rowvars.append(dict(present=alive, value=val, expire_null=en, expire_time=ev))
        for si, specs in per_shard.items():
            shard = self.fc._shards[si]
            shard._con
            w.install_rows(shard, specs)
        self.T0 = self.snapshot()

    def snapshot(self):
        items, settings = [], None
        for shard in self.fc._shards:
            T = self.w.snapshot(shard)
            items.extend(T.items)
            settings = T.settings
        return Table(items, settings)

    def kc(self, name, ver):
        return self.w.bind(self.keys[(name, ver)]), Cell(INT, 1)


def django_table_eq(T_exp, T1, now_last, cols=NOROWID):
    """contents equal; an expiry time that is already in the past may be any past instant (0 is stored as -1)"""
    conj = []
    cols2 = [c for c in cols if c != 'expire_time']
    for it in T_exp.items:
        if it.present is False:
            continue
        p = T1.lookup(it.c['key'], it.c['raw'])
        e1, e2 = it.c['expire_time'], p.c['expire_time']
        exp_ok = Or(sqlmodel.cell_same(e1, e2), And(NeI(e1.cls, NULL), NeI(e2.cls, NULL), LeR(e1.num, now_last), LeR(e2.num, now_last))) if 'expire_time' in cols else True
        conj.append(Implies(it.present, And(p.present, same_cols(p, it, cols2), exp_ok)))
    conj.append(EqI(T_exp.count(), T1.count()))
    return AndL(conj)


def backend_expire(now, tcls, tval, default_timeout):
    """the contract: DEFAULT -> default timeout; None -> never; 0 / negative -> already expired; else now + timeout"""
    if tcls == 'default':
        if default_timeout is None:
            return CNULL, None
        t = zv(default_timeout)
    elif tcls == 'none':
        return CNULL, None
    elif tcls == 'zero':
        t = 0
    else:
        t = zv(tval)
    # expired_already: t <= 0  (stored or not, it must never be visible at any later instant >= now)
    return Cell(REAL, AddR(now, t)), t


def visible_after(expire_cell, now):
    return Or(EqI(expire_cell.cls, NULL), LtR(now, expire_cell.num))


@directive_aware
def ob_django(w, P):
    s = DScn(w, P)
    dc, L = s.dc, w.L
    from django.core.cache.backends.base import DEFAULT_TIMEOUT
    op = P['op']
    cl = []
    name = 'a'
    ver = [None, 1, 2, 0][int(w.int('version_i', 0, 3))]
    eff_ver = 1 if ver is None else ver
    kc, rc = s.kc(name, eff_ver)
    val = w.int('val', -2 ** 40, 2 ** 40)
    tcls = ['default', 'none', 'zero', 'neg', 'pos', 'omitted'][int(w.int('tcls', 0, 5))]
    omitted = tcls == 'omitted'  # the timeout argument is left out altogether: the method's own default must mean "the backend's default timeout"
    if omitted:
        tcls = 'default'
    tval = w.real('tval', 1, 2 ** 40)
    if tcls == 'neg':
        tval = -tval
    targ = {'default': DEFAULT_TIMEOUT, 'none': None, 'zero': 0}.get(tcls, tval)
    tkw = {} if omitted else {'timeout': targ}
    if P.get('busy'):
        # the shard's write lock is held by someone else for the first k attempts: DjangoCache writes wait (retry=True is their
        # default) and then obey the contract in full
        kk = w.int('busy_k', 1, 2)
        cnt = [0]

        def hook(con):
            cnt[0] += 1
            flag('lock_busy')
            return bool(kk >= cnt[0])
        for sh in s.fc._shards:
            w.set_busy_hook(sh, hook)
    # no expiry ties in the pre-state (the contract says nothing about the instant itself)
    w.start_events()
    k0 = len(w.times)
    T0 = s.T0

    def now_():
        if len(w.times) <= k0:
            w.time()  # the call never read the clock: it is judged at an instant right after it
        return w.times[k0]

    def finish(T_exp, res_ok, extra=()):
        T1 = s.snapshot()
        cl.append(('C19', 'the call leaves the contents the Django contract prescribes', django_table_eq(T_exp, T1, w.times[-1] if w.times else 0)))
        cl.append(('C19,C08', 'counters match in every shard', AndL(state.inv_table(w.snapshot(sh)) for sh in s.fc._shards)))
        for c_ in extra:
            cl.append(c_)
        flag('nontrivial')
        return cl

    def no_ties(now):
        # no expiry ties with any clock reading of the call (the contract is silent about the instant itself)
        for t_ in w.times[k0:]:
            for rv in s.rowvars:
                assume(sx.zB(Or(sx._fold(rv['expire_null'].z), NeR(zv(rv['expire_time']), t_))))

    def tt(i):
        ts = w.times[k0:]
        return ts[min(i, len(ts) - 1)]
    if op == 'set':
        ret = dc.set(name, val, version=ver, **tkw)
        now = now_()
        no_ties(now)
        ec, t = backend_expire(now, tcls, tval, dc.default_timeout)
        T_exp, _ = rm.r_set(T0, kc, rc, Cell(INT, zv(val)), now, ec)
        return finish(T_exp, True, [('C19', 'set returns True', ret is True)])
    if op == 'add':
        ret = dc.add(name, val, version=ver, **tkw)
        now = now_()
        no_ties(now)
        ec, t = backend_expire(now, tcls, tval, dc.default_timeout)
        T_exp, res = rm.r_add(T0, kc, rc, Cell(INT, zv(val)), now, ec)
        return finish(T_exp, True, [('C19', 'add returns True iff the key was absent or expired', bool_is(ret, res.ok))])
    if op == 'get':
        ret = dc.get(name, -7, version=ver)
        now = now_()
        no_ties(now)
        _, res = rm.r_get(T0, kc, rc, now)
        ok = And(is_num_like(ret) and True, EqR(zv(ret), IfR(res.ok, res.cell.num, -7))) if is_num_like(ret) else False
        return finish(T0, True, [('C19', 'get returns the unexpired value or the default', ok)])
    if op == 'has_key':
        ret = dc.has_key(name, version=ver)
        now = now_()
        no_ties(now)
        _, res = rm.r_contains(T0, kc, rc, now)
        return finish(T0, True, [('C19', 'has_key iff present and unexpired', bool_is(ret, res.ok))])
    if op == 'touch':
        ret = dc.touch(name, version=ver, **tkw)
        now = now_()
        no_ties(now)
        ec, t = backend_expire(now, tcls, tval, dc.default_timeout)
        T_exp, res = rm.r_touch(T0, kc, rc, now, ec)
        return finish(T_exp, True, [('C19', 'touch returns True iff present and unexpired', bool_is(ret, res.ok))])
    if op == 'delete':
        ret = dc.delete(name, version=ver)
        now = now_()
        no_ties(now)
        T_exp, res = rm.r_delete(T0, kc, rc, now)
        return finish(T_exp, True, [('C19', 'delete returns True iff the key existed', bool_is(ret, res.ok))])
    if op == 'pop':
        ret = dc.pop(name, -7, version=ver)
        now = now_()
        no_ties(now)
        T_exp, res = rm.r_pop(T0, kc, rc, now)
        ok = EqR(zv(ret), IfR(res.ok, res.cell.num, -7)) if is_num_like(ret) else False
        return finish(T_exp, True, [('C19', 'pop returns and removes the unexpired value, else the default', ok)])
    if op in ('incr', 'decr'):
        try:
            ret = getattr(dc, op)(name, val, version=ver)
            raised = False
        except ValueError:
            raised, ret = True, None
        now = now_()
        no_ties(now)
        d = zv(val) if op == 'incr' else SubR(0, zv(val))
        T_exp, res = rm.r_incr(T0, kc, rc, d, None, now)
        if raised:
            return finish(T0, True, [('C19', 'incr/decr raise ValueError only on a missing or expired key', Not(res.ok))])
        return finish(T_exp, True, [('C19', 'incr/decr return the new value of a present key', And(res.ok, EqR(zv(ret), res.cell.num)) if is_num_like(ret) else False)])
    if op == 'get_many':
        ret = dc.get_many(['a', 'b'], version=ver)
        now = now_()
        no_ties(now)
        conj = []
        for i_, nm in enumerate(('a', 'b')):
            if (nm, eff_ver) not in s.keys:
                conj.append(nm not in ret)
                continue
            k2, r2 = s.kc(nm, eff_ver)
            _, res = rm.r_get(T0, k2, r2, tt(i_))
            if nm in ret:
                conj.append(And(res.ok, EqR(zv(ret[nm]), res.cell.num)) if is_num_like(ret[nm]) else False)
            else:
                conj.append(Not(res.ok))
        return finish(T0, True, [('C19', 'get_many returns exactly the unexpired entries', AndL(conj))])
    if op == 'set_many':
        ret = dc.set_many({'a': val, 'b': val + 1}, version=ver, **tkw)
        now = now_()
        no_ties(now)
        ec, t = backend_expire(now, tcls, tval, dc.default_timeout)
        T_exp = T0
        for i_, (nm, v) in enumerate((('a', zv(val)), ('b', AddR(zv(val), 1)))):
            if (nm, eff_ver) not in s.keys:
                return [('C19', 'pool lacks the key', True)]
            k2, r2 = s.kc(nm, eff_ver)
            T_exp, _ = rm.r_set(T_exp, k2, r2, Cell(INT, v), tt(i_), ec)
        T1 = s.snapshot()
        # both writes share the timeout class; store/access times may come from two clock readings
        cols = [c for c in NOROWID if c not in ('store_time', 'access_time', 'expire_time')]
        cl.append(('C19', 'set_many stores every entry', rm.table_eq(T_exp, T1, cols)))
        cl.append(('C19', 'set_many returns the list of failed keys (none)', ret == []))
        flag('nontrivial')
        return cl
    if op == 'delete_many':
        dc.delete_many(['a', 'b'], version=ver)
        now = now_()
        no_ties(now)
        T_exp = T0
        i_ = 0
        for nm in ('a', 'b'):
            if (nm, eff_ver) in s.keys:
                k2, r2 = s.kc(nm, eff_ver)
                T_exp, _ = rm.r_delete(T_exp, k2, r2, tt(i_))
            i_ += 1
        return finish(T_exp, True)
    if op == 'get_or_set':
        ret = dc.get_or_set(name, val, version=ver, **tkw)
        now = now_()
        no_ties(now)
        ec, t = backend_expire(tt(1), tcls, tval, dc.default_timeout)
        T_exp, res = rm.r_add(T0, kc, rc, Cell(INT, zv(val)), tt(1), ec)
        old = T0.lookup(kc, rc)
        was = And(old.present, rm.is_live(old, now))
        # the key must not expire between the first lookup and the add (two clock readings): outside the step
        assume(sx.zB(sx.EqB(was, And(old.present, rm.is_live(old, tt(1))))))
        # stored value when present; otherwise the default is added (and returned even if it expires at once)
        exp_ret = IfR(was, old.c['value'].num, zv(val))
        T1 = s.snapshot()
        cols = [c for c in NOROWID if c not in ('store_time', 'access_time', 'expire_time')]
        cl.append(('C19', 'get_or_set returns the stored value or sets and returns the default', EqR(zv(ret), exp_ret) if is_num_like(ret) else False))
        cl.append(('C19', 'get_or_set stores the default only when the key was missing', rm.table_eq(T_exp, T1, cols)))
        flag('nontrivial')
        return cl
    if op in ('incr_version', 'decr_version'):
        v0 = 1 if op == 'incr_version' else 2
        kA, rA = s.kc('a', v0)
        kB, rB = s.kc('a', 2 if op == 'incr_version' else 1)
        try:
            ret = getattr(dc, op)('a', version=v0)
            raised = False
        except ValueError:
            raised, ret = True, None
        now = now_()
        no_ties(now)
        old = T0.lookup(kA, rA)
        was = And(old.present, rm.is_live(old, now))
        if raised:
            return finish(T0, True, [('C19', 'incr/decr_version raise ValueError only for a missing or expired key', Not(was))])
        ec, t = backend_expire(tt(1), 'default', None, dc.default_timeout)
        T_exp, _ = rm.r_set(T0, kB, rB, old.c['value'], tt(1), ec)
        T_exp, _ = rm.r_delete(T_exp, kA, rA, tt(2))
        T1 = s.snapshot()
        cols = [c for c in NOROWID if c not in ('store_time', 'access_time', 'expire_time')]
        cl.append(('C19', 'the value moves to the neighbouring version', And(was, rm.table_eq(T_exp, T1, cols), ret == (2 if op == 'incr_version' else 1))))
        flag('nontrivial')
        return cl
    if op == 'clear':
        dc.clear()
        T1 = s.snapshot()
        cl.append(('C19', 'clear empties everything', EqI(T1.count(), 0)))
        flag('nontrivial')
        return cl
    if op == 'backend_timeout':
        got = dc.get_backend_timeout(**tkw)
        if tcls == 'default':
            exp = dc.default_timeout
        elif tcls == 'none':
            exp = None
        elif tcls == 'zero':
            exp = -1
        else:
            exp = tval
        ok = (got is None and exp is None) if (got is None or exp is None) else (EqR(zv(got), zv(exp)) if tcls != 'zero' else LtR(zv(got), 0))
        cl.append(('C19', 'get_backend_timeout maps DEFAULT / None / 0 as documented', ok))
        flag('nontrivial')
        return cl
    raise ValueError(op)


@directive_aware
def ob_django_busy(w, P):
    """every DjangoCache write / read while the write lock of the shard is held by someone else for the whole call: the call
    never raises (the sharded cache underneath reports failure instead), returns the documented failure value and
    changes nothing"""
    s = DScn(w, P)
    dc = s.dc
    op = P['op']
    name, ver = 'a', 1
    val = w.int('val', -2 ** 40, 2 ** 40)
    attempts = [0]

    def hook(con):
        attempts[0] += 1
        flag('lock_busy')
        return True
    for sh in s.fc._shards:
        w.set_busy_hook(sh, hook)
    w.start_events()
    T0 = s.T0
    cl = []
    try:
        if op == 'set':
            ret, exp = dc.set(name, val, 60, version=ver, retry=False), False
        elif op == 'add':
            ret, exp = dc.add(name, val, 60, version=ver, retry=False), False
        elif op == 'touch':
            ret, exp = dc.touch(name, 60, version=ver, retry=False), False
        elif op == 'delete':
            ret, exp = dc.delete(name, version=ver, retry=False), False
        elif op == 'pop':
            ret, exp = dc.pop(name, -7, version=ver, retry=False), -7
        elif op == 'incr':
            ret, exp = dc.incr(name, 1, version=ver, retry=False), None
        elif op == 'decr':
            ret, exp = dc.decr(name, 1, version=ver, retry=False), None
        else:
            raise ValueError(op)
        raised = None
    except Exception as e:
        if type(e).__name__ in ('HarnessBug',):
            raise
        raised, ret, exp = e, None, None
    w.stop_events()
    T1 = s.snapshot()
    cl.append(('C19,C14', 'a DjangoCache call that cannot get the write lock does not raise (%s)' % (type(raised).__name__ if raised else 'returned'), raised is None))
    if raised is None:
        if exp is None or isinstance(exp, (bool, list)):
            okr = (ret is exp) if not isinstance(exp, list) else (ret == exp)
        else:
            okr = EqR(zv(ret), exp) if is_num_like(ret) else False
        cl.append(('C19,C14', 'it reports the failure the way the method documents (%r)' % (exp,), okr))
    cl.append(('C19,C14,C08', 'and changes nothing', django_table_eq(T0, T1, w.times[-1] if w.times else 0)))
    cl.append(('C19,C14', 'the lock really was busy', attempts[0] > 0))
    flag('nontrivial')
    return cl

def ob_django_delegation(w, P):
    """every DjangoCache method hands each of its arguments to the sharded cache underneath, under the right parameter name:
    distinct values for every parameter, recorded by a stand-in whose methods have FanoutCache's real signatures"""
    import inspect
    L = w.L
    calls = []
    FC = L.fanout.FanoutCache

    class Rec:
        pass

    def mk(name):
        sig = inspect.signature(getattr(FC, name))

        def meth(self_, *a, **k):
            ba = sig.bind(self_, *a, **k)
            ba.apply_defaults()
            d = dict(ba.arguments)
            d.pop('self', None)
            calls.append((name, d))
            return None
        return meth
    for nm in ('add', 'set', 'touch', 'get', 'pop', 'delete', 'incr', 'decr', 'read'):
        setattr(Rec, nm, mk(nm))
    w.clock_fn = lambda: 0.0
    try:
        dc = L.djangocache.DjangoCache(w.dir, {'SHARDS': 1, 'KEY_PREFIX': 'p', 'VERSION': 1, 'OPTIONS': {}})
    finally:
        w.clock_fn = None
    dc._cache = Rec()
    m = P['method']
    ver = [None, 3][int(w.int('version_i', 0, 1))]
    rd = bool(w.bool('read'))
    tg = ['t1', None][int(w.int('tag_i', 0, 1))]
    rt = bool(w.bool('retry'))
    et = bool(w.bool('want_expire_time'))
    wt = bool(w.bool('want_tag'))
    mk_ = dc.make_key('k', version=ver)
    cl = []
    if m in ('add', 'set'):
        getattr(dc, m)('k', 'v', 40, ver, read=rd, tag=tg, retry=rt)
        want = dict(key=mk_, value='v', expire=40, read=rd, tag=tg, retry=rt)
    elif m == 'touch':
        dc.touch('k', 40, ver, retry=rt)
        want = dict(key=mk_, expire=40, retry=rt)
    elif m == 'get':
        dc.get('k', 'dflt', ver, read=rd, expire_time=et, tag=wt, retry=rt)
        want = dict(key=mk_, default='dflt', read=rd, expire_time=et, tag=wt, retry=rt)
    elif m == 'pop':
        dc.pop('k', 'dflt', ver, expire_time=et, tag=wt, retry=rt)
        want = dict(key=mk_, default='dflt', expire_time=et, tag=wt, retry=rt)
    elif m == 'delete':
        dc.delete('k', ver, retry=rt)
        want = dict(key=mk_, retry=rt)
    elif m == 'incr':
        try:
            dc.incr('k', 5, ver, default=9, retry=rt)
        except (TypeError, ValueError):
            pass
        want = dict(key=mk_, delta=5, default=9, retry=rt)
    elif m == 'decr':
        try:
            dc.decr('k', 5, ver, default=9, retry=rt)
        except (TypeError, ValueError):
            pass
        want = dict(key=mk_, delta=-5, default=9, retry=rt)
    elif m == 'read':
        dc.read('k', ver)
        want = dict(key=mk_)
    got = calls[0][1] if calls else {}
    cl.append(('C19,C01,C13', 'DjangoCache.%s makes one call of the sharded cache (%r)' % (m, [c[0] for c in calls]), len(calls) == 1 and calls[0][0] in (m, 'incr' if m == 'decr' else m)))
    cl.append(('C19,C01,C13', 'every argument arrives under its own parameter (got %r, want %r)' % (got, want), all(k_ in got and got[k_] == v_ for k_, v_ in want.items())))
    flag('nontrivial')
    return cl


OPS = ['set', 'add', 'get', 'has_key', 'touch', 'delete', 'pop', 'incr', 'decr', 'get_many', 'set_many', 'delete_many', 'get_or_set', 'incr_version', 'decr_version', 'clear',
       'backend_timeout']


def jobs(tier):
    out = []
    F = ['djangocache.DjangoCache.' + f for f in ('add', 'get', 'set', 'touch', 'pop', 'delete', 'incr', 'decr', 'has_key', 'get_backend_timeout', 'clear')] + \
        ['fanout.FanoutCache.set', 'fanout.FanoutCache.get', 'core.Cache.set', 'core.Cache.add', 'core.Cache.incr', 'core.Cache.touch']
    for op in OPS:
        for shards in ((1,) if tier == 'quick' else (1, 2)):
            out.append(dict(id='django.%s.shards=%d' % (op, shards), func='ob_django', params=dict(op=op, shards=shards), tags=['C19', 'C08'], functions=F, weight=5))
    for op in ('has_key', 'get', 'set', 'delete', 'touch', 'incr', 'get_many'):
        out.append(dict(id='django.%s.shards=3' % op, func='ob_django', params=dict(op=op, shards=3), tags=['C19', 'C13'], functions=F, weight=6))
    for op in ('set', 'add', 'touch', 'delete', 'pop', 'incr', 'decr'):
        out.append(dict(id='django.busy.noretry.%s' % op, func='ob_django_busy', params=dict(op=op, shards=1), tags=['C19', 'C14'], functions=F, weight=3, must_reach=['lock_busy']))
    for m_ in ('add', 'set', 'touch', 'get', 'pop', 'delete', 'incr', 'decr', 'read'):
        out.append(dict(id='django.delegation.%s' % m_, func='ob_django_delegation', params=dict(method=m_), tags=['C19', 'C01', 'C13'], functions=['djangocache.DjangoCache.%s' % m_], weight=2, twin=False))
    # has_key is a lock-free lookup: a held write lock does not change its answer, whatever bookkeeping the cache is configured to do on reads
    for nm, opts in (('stats', {'statistics': 1}), ('lru', {'eviction_policy': 'least-recently-used'})):
        out.append(dict(id='django.busy.has_key.%s' % nm, func='ob_django', params=dict(op='has_key', shards=1, busy=1, options=opts), tags=['C19', 'C14'], functions=F, weight=4))
    for op in ('set', 'add', 'touch', 'delete', 'pop', 'incr', 'set_many', 'delete_many', 'get_or_set', 'incr_version', 'clear'):
        out.append(dict(id='django.busy.wait.%s' % op, func='ob_django', params=dict(op=op, shards=1, busy=1), tags=['C19', 'C14'], functions=F, weight=8, must_reach=['lock_busy']))
    return out
