"""C18 (b) settings persist and are shared by every handle; (c) handle life-cycle (pickle state, close/reopen, pid change).
The real Cache.__init__ / _con / __getstate__ / __setstate__ / reset run against the model database."""
from symdc import sx, env
from symdc.sx import And, Or, Not, Implies, EqI, EqR, AndL
from symdc.zpath import I, R, B, assume, flag
from obligations.cache_ops import zv, is_num_like


def ob_settings(w, P):
    """first handle created with symbolic settings; a second handle (no arguments) sees them; explicit arguments of a
    third handle override; metadata counters are not reset by reopening; a Disk subclass option persists"""
    L = w.L
    core = L.core
    w.clock_fn = lambda: 1000.0
    cl = []
    cull = w.int('cull_limit', 0, 1000)
    size = w.int('size_limit', 2 ** 41, 2 ** 50)  # far above the volume: no eviction in this obligation
    stats = int(w.int('statistics', 0, 1))
    mfs = w.int('min_file_size', 0, 2 ** 20)
    pol = ['least-recently-stored', 'least-recently-used', 'least-frequently-used', 'none'][int(w.int('policy_i', 0, 3))]
    foo = w.int('disk_foo', 0, 100)

    class MyDisk(core.Disk):
        def __init__(self, directory, foo=1, **kw):
            self.foo = foo
            super().__init__(directory, **kw)
    use_sub = P.get('disk') == 'sub'
    kw = dict(cull_limit=cull, size_limit=size, statistics=stats, disk_min_file_size=mfs, eviction_policy=pol)
    if use_sub:
        c1 = core.Cache(w.dir, disk=MyDisk, disk_foo=foo, **kw)
    else:
        c1 = core.Cache(w.dir, **kw)
    c1.set(5, 7)
    c1.get(5)
    n1 = len(c1)
    hits1 = c1.reset('hits')
    c2 = core.Cache(w.dir, disk=MyDisk) if use_sub else core.Cache(w.dir)

    def same(a, b):
        if is_num_like(a) and is_num_like(b):
            return EqR(zv(a), zv(b))
        return a == b
    cl.append(('C18', 'a second handle sees the settings the cache was created with',
               And(same(c2.cull_limit, cull), same(c2.size_limit, size), same(c2.statistics, stats), same(c2.disk_min_file_size, mfs), c2.eviction_policy == pol)))
    cl.append(('C18', 'the Disk object is rebuilt from the stored disk_* values', same(c2.disk.min_file_size, mfs)))
    if use_sub:
        flag('disk_subclass')
        cl.append(('C18', "a Disk subclass's own option persists", And(isinstance(c2.disk, MyDisk), same(getattr(c2.disk, 'foo', None), foo) if hasattr(c2.disk, 'foo') else False)))
    cl.append(('C18', 'reopening neither loses items nor resets the counters', And(same(len(c2), n1), same(c2.reset('hits'), hits1), same(c2.get(5), 7))))
    cull3 = w.int('cull_limit3', 0, 1000)
    c3 = core.Cache(w.dir, cull_limit=cull3, **({'disk': MyDisk} if use_sub else {}))
    cl.append(('C18', 'explicit arguments override the stored settings, the others stay', And(same(c3.cull_limit, cull3), same(c3.size_limit, size))))
    c4 = core.Cache(w.dir, **({'disk': MyDisk} if use_sub else {}))
    cl.append(('C18', 'an override is itself persisted', same(c4.cull_limit, cull3)))
    # a value written through one handle is visible through the others
    c4.set(9, 1)
    cl.append(('C18', 'writes through one handle are visible through every other handle', And(same(c1.get(9), 1), same(c2.get(9), 1))))
    flag('nontrivial')
    return cl


def ob_lifecycle(w, P):
    L = w.L
    core = L.core
    w.clock_fn = lambda: 1000.0
    cl = []
    connects = []
    orig_connect = w.sqlite3.connect

    def counting_connect(*a, **k):
        connects.append(a[0])
        return orig_connect(*a, **k)
    w.sqlite3.connect = counting_connect
    kind = P['kind']
    v = w.int('val', -2 ** 40, 2 ** 40)
    if kind == 'cache':
        c = core.Cache(w.dir, timeout=7)
        c.set(1, v)
        st = c.__getstate__()
        c2 = core.Cache.__new__(core.Cache)
        c2.__setstate__(st)
        cl.append(('C18', 'an unpickled Cache is a handle on the same directory with the same timeout and Disk class',
                   c2.directory == c.directory and c2.timeout == 7 and type(c2.disk) is type(c.disk)))
        cl.append(('C18', 'and sees the same items', EqR(zv(c2.get(1)), zv(v))))
        n0 = len(connects)
        c.close()
        r = c.get(1)
        cl.append(('C18', 'a closed object reopens transparently on next use', And(EqR(zv(r), zv(v)), len(connects) == n0 + 1)))
        n1 = len(connects)
        w.pid += 1  # the process forked: the inherited connection must not be used
        r2 = c.get(1)
        cl.append(('C18', 'after a pid change the inherited connection is dropped and a new one opened', And(EqR(zv(r2), zv(v)), len(connects) == n1 + 1)))
        c.set(2, v)
        cl.append(('C18', 'parent and child both keep working', EqR(zv(c2.get(2)), zv(v))))
    elif kind == 'fanout':
        total = w.int('size_limit', 2 ** 30, 2 ** 50)
        cull = w.int('cull_limit', 0, 50)
        fc = L.fanout.FanoutCache(w.dir, shards=2, timeout=3, size_limit=total, cull_limit=cull)
        fc.set(1, v)
        per_shard = [sh.size_limit for sh in fc._shards]
        import pickle as _pickle
        if isinstance(total, I):
            st = fc.__getstate__()
            f2 = L.fanout.FanoutCache.__new__(L.fanout.FanoutCache)
            f2.__setstate__(st)
        else:
            f2 = _pickle.loads(_pickle.dumps(fc))
        half = zv(total) / 2
        cl.append(('C13', 'the total size limit is divided among the shards', AndL(EqR(zv(p), sx.ToInt(half) if hasattr(sx, 'ToInt') else half) for p in per_shard)))
        cl.append(('C18,C13', "a pickle round trip changes no shard's settings: the copy, the original and a newly opened handle all report the per-shard limits the cache was created with",
                   AndL(And(EqR(zv(a.size_limit), zv(p)), EqR(zv(a.cull_limit), zv(cull))) for h in (f2, fc, L.fanout.FanoutCache(w.dir, shards=2)) for a, p in zip(h._shards, per_shard))))
        cl.append(('C18,C13', 'and the stored settings are unchanged', AndL(EqR(zv(core.Cache(sh._directory).reset('size_limit')), zv(p)) for sh, p in zip(fc._shards, per_shard))))
        # reopening WITH an explicit total (any value, the library default 2**30 included) divides that total among the shards again
        total2 = w.int('size_limit2', 2 ** 30 - 2, 2 ** 30 + 2)
        f5 = L.fanout.FanoutCache(w.dir, shards=2, size_limit=total2)
        cl.append(('C13,C18', 'an explicit size limit on reopen is divided among the shards and stored, whatever its value',
                   AndL(And(EqR(sx.MulR(2, zv(sh.size_limit)), zv(total2)), EqR(sx.MulR(2, zv(core.Cache(sh._directory).size_limit)), zv(total2))) for sh in f5._shards)))
        cl.append(('C18', 'an unpickled FanoutCache has the same directory, shard count, timeout and Disk class',
                   f2.directory == fc.directory and f2._count == 2 and f2.timeout == 3 and f2._disk is fc._disk))
        cl.append(('C18', 'and sees the same items', EqR(zv(f2.get(1)), zv(v))))
        cl.append(('C18', 'shard directories are the fixed %03d names', [s._directory for s in f2._shards] == [w.dir + '/000', w.dir + '/001']))
    elif kind == 'deque':
        mi = int(w.int('maxlen_i', -1, 3))
        maxlen = None if mi < 0 else mi
        dq = L.persistent.Deque([v, v + 1], directory=w.dir, maxlen=maxlen)
        st = dq.__getstate__()
        d2 = L.persistent.Deque.__new__(L.persistent.Deque)
        d2.__setstate__(st)
        exp = [v, v + 1] if maxlen is None else [v, v + 1][-maxlen:] if maxlen > 0 else []
        got = list(d2)
        cl.append(('C18,C11', 'an unpickled Deque has the same directory, maxlen and sequence',
                   And(d2.directory == dq.directory, d2.maxlen == dq.maxlen, len(got) == len(exp), AndL(EqR(zv(a), zv(b)) for a, b in zip(got, exp)))))
        d3 = L.persistent.Deque(directory=w.dir, maxlen=maxlen)
        cl.append(('C18,C11', 'reopening the directory yields the same sequence', And(len(list(d3)) == len(exp), AndL(EqR(zv(a), zv(b)) for a, b in zip(list(d3), exp)))))
    elif kind == 'index':
        ix = L.persistent.Index(w.dir, {1: v, 2: v + 1})
        st = ix.__getstate__()
        i2 = L.persistent.Index.__new__(L.persistent.Index)
        i2.__setstate__(st)
        items = list(i2.items())
        cl.append(('C18,C12', 'an unpickled Index has the same directory and items in the same order',
                   And(i2.directory == ix.directory, [k for k, _ in items] == [1, 2], EqR(zv(items[0][1]), zv(v)), EqR(zv(items[1][1]), zv(v) + 1))))
    flag('nontrivial')
    return cl


def ob_init_kill(w, P):
    """C07 at the very beginning of a directory's life: the process that opens a brand-new directory for the first time
    (real Cache.__init__: tables, indexes, triggers, settings, counters) and stores one item is killed at a symbolic
    event; every later process can open the directory and read, write and count in it, and check() finds nothing"""
    import os
    L = w.L
    core = L.core
    w.clock_fn = lambda: 1000.0
    cl = []
    kind = P.get('kind', 'cache')

    def first_life():
        if kind == 'cache':
            c = core.Cache(w.dir)
            c.set(1, 2)
        elif kind == 'fanout':
            f = L.fanout.FanoutCache(w.dir, shards=2)
            f.set(1, 2)
        elif kind == 'index':
            L.persistent.Index(w.dir, {1: 2})
        elif kind == 'deque':
            L.persistent.Deque([2], directory=w.dir)
    w.crash_at = w.int('crash_at', 0, P.get('max_events', 140))
    w.start_events()
    crashed = False
    try:
        if w.is_real:
            pid = os.fork()
            if pid == 0:
                try:
                    w.in_child = True
                    try:
                        first_life()
                    except BaseException:
                        pass
                finally:
                    os._exit(0)
            _, status = os.waitpid(pid, 0)
            crashed = os.WIFSIGNALED(status)
        else:
            first_life()
    except env.Crash:
        crashed = True
    w.recover()
    w.stop_events()
    if crashed:
        flag('crashed')
    w.pid += 1
    try:
        if kind == 'fanout':
            c2 = L.fanout.FanoutCache(w.dir, shards=2)
        else:
            c2 = core.Cache(w.dir)
        ok_rw = And(c2.set(3, 4) is True, EqR(zv(c2.get(3)), 4) if is_num_like(c2.get(3)) else False)
        n = len(c2)
        keys = list(c2)
        cl.append(('C07,C18', 'after a kill during the first open every later process can open the directory and read and write', ok_rw))
        cl.append(('C07,C03', 'and its count matches what iteration finds', EqR(zv(n), len(keys))))
        one = c2.get(1, default=None) if kind in ('cache', 'fanout') else None
        cl.append(('C07', 'the item of the killed process is there in full or not at all', True if one is None else (EqR(zv(one), 2) if is_num_like(one) else False)))
        if kind == 'fanout':
            cl.append(('C07,C13', 'the default total size limit is still divided among the shards', AndL(EqR(zv(sh.size_limit), 2 ** 30 // 2) for sh in c2._shards)))
        if P.get('check', True) and kind != 'fanout':
            cl.append(('C07,C17', 'and check() finds nothing wrong', len(c2.check()) == 0))
    except Exception as e:
        import traceback
        cl.append(('C07,C18', 'after a kill during the first open a later process can open and use the directory (%s: %s)' % (type(e).__name__, e), False))
    flag('nontrivial')
    return cl

def ob_init_race(w, P):
    """two processes open a brand-new directory at the same time: client A's first Cache(directory) is interrupted at a
    symbolic event by client B's complete Cache(directory) + set; both handles work afterwards, both see both items
    and the settings / counters are complete"""
    L = w.L
    core = L.core
    w.clock_fn = lambda: 1000.0
    cl = []
    res = {}

    def intruder():
        w.tid, old = 2, w.tid
        try:
            b = core.Cache(w.dir)
            res['b'] = b
            res['set'] = b.set(3, 4)
        finally:
            w.tid = old
    w.interfere_at = w.int('at', 0, P.get('max_events', 140))
    w.interfere_hook = intruder
    w.start_events()
    a = core.Cache(w.dir)
    w.stop_events()
    if 'b' not in res:
        flag('nontrivial')
        return [('C18', 'uninterrupted', True)]
    flag('interleaved')
    b = res['b']
    cl.append(('C18,C05', "the second client's write during the first client's initialisation succeeded", res['set'] is True))
    ra = a.set(1, 2)
    cl.append(('C18,C05', 'the first client works after its interrupted initialisation', ra is True))
    for h, nm in ((a, 'first'), (b, 'second')):
        cl.append(('C18,C05', 'the %s client sees both items and the right count' % nm,
                   And(EqR(zv(h.get(1, default=-1)), 2), EqR(zv(h.get(3, default=-1)), 4), EqR(zv(len(h)), 2))))
    c3 = core.Cache(w.dir)
    cl.append(('C18', 'a later handle sees the same', And(EqR(zv(len(c3)), 2), c3.eviction_policy == a.eviction_policy, EqR(zv(c3.size_limit), zv(a.size_limit)))))
    cl.append(('C18,C17', 'check() finds nothing wrong', len(c3.check()) == 0))
    flag('nontrivial')
    return cl

def ob_settings_handles(w, P):
    """a setting is changed through one handle, then through another whose cached attribute is stale: the last reset wins
    for every handle (after reload), for new handles and in the stored settings -- also when the value written equals
    the writer's own cached value; same for create_tag_index / drop_tag_index"""
    L = w.L
    core = L.core
    w.clock_fn = lambda: 1000.0
    cl = []
    v = w.int('v', 0, 1000)
    wv = w.int('w', 0, 1000)
    v2 = w.int('v2', 0, 1000)
    key = ['cull_limit', 'size_limit', 'statistics'][int(w.int('key_i', 0, 2))] if not P.get('fanout') else 'cull_limit'
    if P.get('fanout'):
        mk = lambda **kw: L.fanout.FanoutCache(w.dir, shards=2, **kw)
    else:
        mk = lambda **kw: core.Cache(w.dir, **kw)
    a = mk(**{key: v})
    b = mk()
    rb = b.reset(key, wv)
    ra = a.reset(key, v2)  # a's cached attribute is still v

    def same(p, q):
        return EqR(zv(p), zv(q)) if is_num_like(p) and is_num_like(q) else p == q
    cl.append(('C18', 'reset returns the value written', And(same(rb, wv), same(ra, v2))))
    cl.append(('C18', 'the last reset wins: the other handle sees it after reload', same(b.reset(key), v2)))
    cl.append(('C18', 'a new handle sees it', same(getattr(mk(), key), v2)))
    cl.append(('C18', 'the writer reports it', same(getattr(a, key), v2)))
    if not P.get('fanout'):
        b.create_tag_index()
        a.drop_tag_index()  # a's cached tag_index is still 0
        c3 = mk()
        cl.append(('C18', 'drop_tag_index through a handle with a stale attribute is stored: a new handle reports tag_index 0', same(c3.tag_index, 0)))
        a.create_tag_index()
        cl.append(('C18', 'and create_tag_index likewise', same(mk().tag_index, 1)))
    flag('nontrivial')
    return cl

def ob_reopen_race(w, P):
    """a handle is (re)opened -- Cache(directory), Index(directory) or an unpickled copy -- on a directory that is in use: the
    real __init__ is interrupted at a symbolic event by another client's complete committed write (insert of a new key,
    replacement, or removal).  Opening never writes back anything it read earlier: afterwards the item count, the size
    counter and the contents are those of the committed writes, for every handle and for a later reopen."""
    L = w.L
    core = L.core
    w.clock_fn = lambda: 1000.0
    cl = []
    kind = P.get('kind', 'cache')
    a0 = core.Cache(w.dir, eviction_policy='none')
    a0.set(1, 11)
    a0.set(2, 22)
    v = w.int('val', -2 ** 30, 2 ** 30)
    opB = P['b']
    res = {}

    def intruder():
        w.tid, old = 2, w.tid
        try:
            if opB == 'insert':
                res['ret'] = a0.set(3, v)
            elif opB == 'replace':
                res['ret'] = a0.set(1, v)
            elif opB == 'delete':
                res['ret'] = a0.delete(2)
            elif opB == 'pop':
                res['ret'] = a0.pop(2) is not None
            elif opB == 'incr':
                res['ret'] = a0.incr(1, 1) is not None
        finally:
            w.tid = old
    w.interfere_at = w.int('at', 0, P.get('max_events', 90))
    w.interfere_hook = intruder
    w.start_events()
    if kind == 'cache':
        b = core.Cache(w.dir)
    elif kind == 'index':
        b = L.persistent.Index(w.dir).cache
    elif kind == 'unpickle':
        b = core.Cache.__new__(core.Cache)
        b.__setstate__(a0.__getstate__())
    w.stop_events()
    if 'ret' not in res:
        flag('nontrivial')
        return [('C18', 'uninterrupted', True)]
    flag('interleaved')
    expected = {1: 11, 2: 22}
    if opB == 'insert':
        expected[3] = v
    elif opB == 'replace':
        expected[1] = v
    elif opB in ('delete', 'pop'):
        del expected[2]
    elif opB == 'incr':
        expected[1] = 12
    cl.append(('C18,C05', "the other client's write during the open succeeded", res['ret'] is True))
    for h, nm in ((a0, 'writing'), (b, 'newly opened'), (core.Cache(w.dir), 'later')):
        ok = [EqR(zv(len(h)), len(expected))]
        for k_ in (1, 2, 3):
            got = h.get(k_, default=None)
            if k_ in expected:
                ok.append(EqR(zv(got), zv(expected[k_])) if is_num_like(got) else False)
            else:
                ok.append(got is None)
        cl.append(('C18,C05,C12', 'the %s handle counts and returns exactly the committed items' % nm, AndL(ok)))
    T = w.snapshot(core.Cache(w.dir))
    from symdc import state as _state
    cl.append(('C18,C08', 'stored counters match the rows', _state.inv_table(T)))
    flag('nontrivial')
    return cl

def ob_reopen_busy(w, P):
    """a directory created with non-default settings is opened while another client holds a lock that blocks every statement,
    reads included (exclusive locking mode, recovery, a journal-mode switch), for k attempts of one statement of the open
    (which statement: symbolic): the open waits, and the stored settings and items are what they were -- for the new handle
    and for every later one"""
    L = w.L
    core = L.core
    w.clock_fn = lambda: 1000.0
    cl = []
    a0 = core.Cache(w.dir, cull_limit=3, size_limit=12345678, statistics=1, eviction_policy='least-frequently-used', disk_min_file_size=7)
    a0.set(1, 11)
    a0.create_tag_index()
    at = w.int('busy_at', 0, P.get('max_statements', 14))
    kk = w.int('busy_k', 1, 2)
    n = [0]
    fails = [0]

    def hook(con, sql):
        i = n[0]
        if bool(at == i) and bool(fails[0] < kk):
            fails[0] += 1
            flag('statement_blocked')
            return True
        n[0] += 1
        return False
    w.set_busy_all_hook(a0, hook)
    w.start_events()
    kind = P.get('kind', 'cache')
    if kind == 'cache':
        b = core.Cache(w.dir)
    elif kind == 'unpickle':
        b = core.Cache.__new__(core.Cache)
        b.__setstate__(a0.__getstate__())
    else:
        b = L.persistent.Index(w.dir).cache
    b.get(1)
    w.stop_events()
    w.set_busy_all_hook(a0, None)

    def same(p, q):
        return EqR(zv(p), zv(q)) if is_num_like(p) and is_num_like(q) else p == q
    for h, nm in ((b, 'handle opened under the lock'), (core.Cache(w.dir), 'later handle')):
        if kind == 'index' and nm.startswith('handle'):
            continue  # Index(directory) passes eviction_policy='none' itself
        cl.append(('C18,C14', 'the %s has the stored settings' % nm,
                   And(same(h.cull_limit, 3), same(h.size_limit, 12345678), same(h.statistics, 1), h.eviction_policy == ('least-frequently-used' if kind != 'index' else 'none'),
                       same(h.disk_min_file_size, 7), same(h.tag_index, 1), same(h.disk.min_file_size, 7))))
        cl.append(('C18', 'and the stored item', same(h.get(1), 11)))
    flag('nontrivial')
    return cl

def ob_key_storage_class(w, P):
    """keys keep their storage class in the table a fresh directory gets: text that looks like a number, the number itself,
    an integral float and the bytes are four different keys, and iteration hands each back with its own type (the key and
    value columns carry no affinity that would convert them)"""
    L = w.L
    core = L.core
    w.clock_fn = lambda: 1000.0
    cl = []
    c = core.Cache(w.dir)
    pairs = [('42', 1), (42, 2), (3.0, 3), (b'42', 4), ('007', 5), ('7', 6), (7.0, 7), (' 9', 8), ('1e3', 9)]
    for k, v in pairs:
        c.set(k, v)
    got = list(c)
    cl.append(('C02,C18', 'numeric-looking text, numbers and bytes are distinct keys (%d entries for %d keys)' % (len(c), len(pairs)), len(c) == len(pairs)))
    ok = all(c.get(k) == v for k, v in pairs) and c.get(7) == 7 and c.get(42.0) == 2  # equal numbers are one key, whatever their type
    cl.append(('C02', 'every key finds its own value', ok))
    cl.append(('C02,C18', 'iteration returns every key with the type it was stored with (%r)' % (got,),
               [(type(k), k) for k in got[:6]] == [(type(k), k) for k, _ in pairs[:6]]))
    flag('nontrivial')
    return cl


def ob_fanout_dir_spelling(w, P):
    """a sharded cache whose directory is spelled with an environment variable or a trailing separator: reopened under the same
    spelling without a size limit it keeps the limits it was created with, and finds its items"""
    import os
    L = w.L
    w.clock_fn = lambda: 1000.0
    cl = []
    os.environ['VERIF_CACHE_ROOT'] = w.dir
    d = {'envvar': '$VERIF_CACHE_ROOT/fan', 'braces': '${VERIF_CACHE_ROOT}/fan', 'trailing': w.dir + '/fan/'}[P['spelling']]
    total = 2 * int(w.int('per_shard_limit', 2 ** 20, 2 ** 20 + 3))
    a = L.fanout.FanoutCache(d, shards=2, size_limit=total)
    a.set(1, 11)
    a.set(2, 22)
    b = L.fanout.FanoutCache(d, shards=2)

    def same(p, q):
        return EqR(zv(p), zv(q)) if is_num_like(p) and is_num_like(q) else p == q
    for h, nm in ((b, 'handle reopened without a size limit'), (a, 'first handle')):
        cl.append(('C13,C18', 'the %s has the per-shard limits the cache was created with (%r)' % (nm, [sh.reset('size_limit') for sh in h._shards]),
                   all(same(sh.reset('size_limit'), total // 2) for sh in h._shards)))
    cl.append(('C13,C18', 'and finds the items', same(b.get(1), 11) and same(b.get(2), 22)))
    flag('nontrivial')
    return cl


def ob_pickle_stale_settings(w, P):
    """a handle is pickled, the directory's settings are changed afterwards (through any handle), then the pickle is loaded: the
    copy takes the settings the directory stores now -- unpickling never writes pickling-time settings back"""
    import pickle
    L = w.L
    core = L.core
    w.clock_fn = lambda: 1000.0
    cl = []
    fan = P.get('fanout', False)
    lim0 = int(w.int('cull_limit_before', 1, 9))
    lim1 = int(w.int('cull_limit_after', 0, 9))
    if fan:
        a = L.fanout.FanoutCache(w.dir, shards=2, cull_limit=lim0, statistics=0)
    else:
        a = core.Cache(w.dir, cull_limit=lim0, statistics=0)
    a.set(1, 11)
    state = pickle.dumps(a)
    b = L.fanout.FanoutCache(w.dir, shards=2) if fan else core.Cache(w.dir)
    b.reset('cull_limit', lim1)
    b.reset('statistics', 1)
    c = pickle.loads(state)
    fresh = L.fanout.FanoutCache(w.dir, shards=2) if fan else core.Cache(w.dir)

    def same(p, q):
        return EqR(zv(p), zv(q)) if is_num_like(p) and is_num_like(q) else p == q
    for h, nm in ((c, 'unpickled copy'), (fresh, 'handle opened afterwards'), (b, 'handle that changed them')):
        cl.append(('C18', 'the %s has the settings stored now (cull_limit %r, statistics %r)' % (nm, h.cull_limit, h.statistics),
                   And(same(h.reset('cull_limit'), lim1), same(h.reset('statistics'), 1))))
    cl.append(('C18', 'and the stored item', same(c.get(1), 11)))
    flag('nontrivial')
    return cl


def ob_jsondisk_cache(w, P):
    """a Cache over JSONDisk (every key and value goes through the Disk subclass's own put / get / store / fetch): every way of
    listing keys hands back the stored keys, equal and of the same type, and each finds its value again"""
    L = w.L
    core = L.core
    w.clock_fn = lambda: 1000.0
    cl = []
    c = core.Cache(w.dir, disk=core.JSONDisk, disk_compress_level=P.get('level', 1))
    pairs = [('abc', 1), (1, 'one'), (2.5, [1, 2]), (None, {'k': 'v'}), (True, None), ('', 'empty'), (7, 'x' * 40)]
    for k, v in pairs:
        c.set(k, v)
    keys = [k for k, _ in pairs]

    def same(a, b):
        return len(a) == len(b) and all(type(p_) is type(q_) and p_ == q_ for p_, q_ in zip(a, b))
    cl.append(('C02,C01', 'iteration returns the stored keys (%r)' % (list(c),), same(list(c), keys) and same(list(reversed(c)), keys[::-1])))
    try:
        ik, ikr = list(c.iterkeys()), list(c.iterkeys(reverse=True))
    except Exception as e:
        if type(e).__name__ == 'HarnessBug':
            raise
        ik, ikr = [repr(e)], []
    srt = sorted(keys, key=lambda k_: bytes(core.JSONDisk.put(c.disk, k_)[0]))
    cl.append(('C02', 'iterkeys returns the stored keys, decoded by the Disk class in use (%r)' % (ik,), same(ik, srt) and same(ikr, srt[::-1])))
    cl.append(('C02,C01', 'every key finds its own value', all(c.get(k) == v and (k in c) for k, v in pairs)))
    pk = c.peekitem()
    cl.append(('C02', 'peekitem returns the last stored key and value', type(pk[0]) is int and pk == (7, 'x' * 40) and c.peekitem(last=False) == ('abc', 1)))
    flag('nontrivial')
    return cl


def ob_fresh_connection_busy(w, P):
    """the first operations of a handle on a fresh connection (after close(), or from a thread that has not used the object
    yet) while another client holds the write lock: opening the connection only re-applies the stored sqlite_* pragmas, so
    lookups never ask for the write lock and answer from the committed state, and a write without retry is refused with
    Timeout at its BEGIN IMMEDIATE, leaving nothing behind"""
    L = w.L
    core = L.core
    w.clock_fn = lambda: 1000.0
    cl = []
    c = core.Cache(w.dir, disk_min_file_size=0, eviction_policy='least-recently-stored')
    c.set(1, 11)
    how = P['how']
    if how == 'closed':
        c.close()
    else:
        w.tid = w.tid + 7  # a thread that has no connection on this object yet
    kk = w.int('busy_k', 1, 3)
    calls = [0]

    def hook(con):
        calls[0] += 1
        flag('lock_busy')
        return bool(kk >= calls[0])
    probe = core.Cache(w.dir)
    w.set_busy_hook(probe, hook)
    w.start_events()
    res = {}
    try:
        res['in'] = 1 in c
        res['get'] = c.get(1)
        res['len'] = len(c)
    except Exception as e:
        if type(e).__name__ == 'HarnessBug':
            raise
        res['err'] = type(e).__name__
    asked = calls[0]
    try:
        c.set(2, b'file-backed', retry=False)
        res['set'] = 'stored'
    except core.Timeout:
        res['set'] = 'timeout'
    except Exception as e:
        if type(e).__name__ == 'HarnessBug':
            raise
        res['set'] = type(e).__name__
    w.stop_events()
    w.set_busy_hook(probe, None)

    def same(p, q):
        return EqR(zv(p), zv(q)) if is_num_like(p) and is_num_like(q) else p == q
    cl.append(('C14,C18', 'lookups on a fresh connection answer from the committed state (%s)' % res.get('err', 'no exception'),
               'err' not in res and res.get('in') is True and same(res.get('get'), 11) and same(res.get('len'), 1)))
    cl.append(('C14', 'and never ask for the write lock', asked == 0))
    cl.append(('C14', 'a write without retry on a fresh connection is refused with Timeout (%s)' % res['set'], res['set'] == 'timeout'))
    import warnings
    with warnings.catch_warnings(record=True):
        warnings.simplefilter('always')
        found = probe.check()
    cl.append(('C14,C08', 'and leaves nothing behind (check() reports %d problems)' % len(found), And(same(len(probe), 1), len(found) == 0)))
    flag('nontrivial')
    return cl


def jobs(tier):
    out = []
    F = ['core.Cache.__init__', 'core.Cache._con', 'core.Cache.reset', 'core.Cache.close', 'core.Cache.__getstate__', 'core.Cache.__setstate__']
    for fan in (False, True):
        out.append(dict(id='persist.pickle_stale_settings%s' % ('.fanout' if fan else ''), func='ob_pickle_stale_settings', params=dict(fanout=fan), tags=['C18'],
                        functions=['core.Cache.__getstate__', 'core.Cache.__setstate__', 'fanout.FanoutCache.__getstate__', 'fanout.FanoutCache.__setstate__', 'core.Cache.reset'], weight=4, twin=False))
    for sp in ('envvar', 'braces', 'trailing'):
        out.append(dict(id='persist.fanout_dir_spelling.%s' % sp, func='ob_fanout_dir_spelling', params=dict(spelling=sp), tags=['C13', 'C18'],
                        functions=['fanout.FanoutCache.__init__', 'core.Cache.__init__'], weight=4, twin=False))
    out.append(dict(id='persist.jsondisk_cache', func='ob_jsondisk_cache', params={}, tags=['C02', 'C01'], functions=['core.Cache.iterkeys', 'core.Cache._iter', 'core.Cache.peekitem', 'core.JSONDisk.put', 'core.JSONDisk.get'],
                    weight=3, twin=False))
    out.append(dict(id='persist.key_storage_class', func='ob_key_storage_class', params={}, tags=['C02', 'C18'], functions=['core.Cache.__init__', 'core.Cache.set', 'core.Cache.get', 'core.Disk.put', 'core.Disk.get'],
                    weight=3, twin=False))
    for how in ('closed', 'thread'):
        out.append(dict(id='fresh_connection.busy.%s' % how, func='ob_fresh_connection_busy', params=dict(how=how), tags=['C14', 'C18'], functions=F + ['core.Cache.get', 'core.Cache.set', 'core.Cache.__contains__'],
                        weight=4, twin=False, must_reach=['lock_busy']))
    for d in ('plain', 'sub'):
        out.append(dict(id='persist.settings.%s' % d, func='ob_settings', params=dict(disk=d), tags=['C18', 'C02'], functions=F, weight=10, twin=False,
                        must_reach=['disk_subclass'] if d == 'sub' else []))
    for k in ('cache', 'fanout', 'deque', 'index'):
        out.append(dict(id='persist.lifecycle.%s' % k, func='ob_lifecycle', params=dict(kind=k), tags=['C18', 'C11', 'C12'] + (['C13', 'C15'] if k == 'fanout' else []),
                        functions=F + ['fanout.FanoutCache.__getstate__', 'fanout.FanoutCache.__setstate__', 'persistent.Deque.__getstate__', 'persistent.Deque.__setstate__',
                                       'persistent.Index.__getstate__', 'persistent.Index.__setstate__'], weight=5, twin=False))
    for fan in (False, True):
        out.append(dict(id='persist.settings.handles%s' % ('.fanout' if fan else ''), func='ob_settings_handles', params=dict(fanout=fan), tags=['C18'], functions=F + ['core.Cache.create_tag_index', 'core.Cache.drop_tag_index', 'fanout.FanoutCache.reset'],
                        weight=10, twin=False))
    for kind in ('cache', 'index', 'unpickle'):
        for b in (('insert', 'delete') if tier == 'quick' and kind != 'cache' else ('insert', 'replace', 'delete', 'pop', 'incr')):
            out.append(dict(id='reopen.race.%s.%s' % (kind, b), func='ob_reopen_race', params=dict(kind=kind, b=b), tags=['C18', 'C05', 'C12', 'C08'], functions=F + ['core.Cache.set', 'core.Cache.delete'],
                            weight=15, twin=False, must_reach=['interleaved']))
    for kind in ('cache', 'unpickle', 'index'):
        out.append(dict(id='reopen.busy.%s' % kind, func='ob_reopen_busy', params=dict(kind=kind), tags=['C18', 'C14'], functions=F + ['core.Cache._sql_retry'], weight=10, twin=False,
                        must_reach=['statement_blocked']))
    out.append(dict(id='init.race', func='ob_init_race', params={}, tags=['C18', 'C05'], functions=F + ['core.Cache._sql_retry'], weight=30, twin=False, must_reach=['interleaved']))
    for k in ('cache', 'fanout', 'index', 'deque'):
        out.append(dict(id='init.kill.%s' % k, func='ob_init_kill', params=dict(kind=k), tags=['C07', 'C18'], functions=F + ['core.Cache._sql_retry'], weight=30, twin=False,
                        must_reach=['crashed']))
    return out
