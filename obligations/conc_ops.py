"""C05: two overlapping calls on one cache directory.  Client A's real call is interrupted at a symbolic event
boundary (every SQL statement / file operation) by client B's complete real call -- B is a second Cache
handle on the same directory or a second thread identity on the same object.  Oracle: linearizability
against the functional reference dictionary: results and final state equal those of A;B or B;A, with the one
tolerated anomaly (a lookup overlapping a write/removal of the same key may report a miss)."""
from symdc import sx, spec, state, scn as scn_mod, sqlmodel, env, refmodel as rm
from symdc.sx import (And, Or, Not, Implies, EqI, NeI, EqR, NeR, LtR, LeR, AddR, AndL, OrL, Count, simp, isz)
from symdc.zpath import I, R, B, assume, flag
from symdc.sqlmodel import Cell, CNULL, NULL, INT, REAL, TEXT
from symdc.state import same_cols, CACHE_COLS
from obligations.cache_ops import Ctx, zv, SHORT, is_num_like

OPS = ['set', 'add', 'incr', 'get', 'contains', 'pop', 'delete', 'touch']
LOOKUPS = ('get', 'contains')


def run_op(c, kind, k, v):
    """returns ('ok', python result) / ('keyerror', None)"""
    if kind == 'set':
        return c.set(k, v)
    if kind == 'add':
        return c.add(k, v)
    if kind == 'incr':
        return c.incr(k, v)
    if kind == 'get':
        return c.get(k, default=None)
    if kind == 'contains':
        return k in c
    if kind == 'pop':
        return c.pop(k, default=None)
    if kind == 'delete':
        return c.delete(k)
    if kind == 'touch':
        return c.touch(k, None)
    raise ValueError(kind)


def ref_op(T, kind, kc, rc, v, now):
    vz = zv(v)
    if kind == 'set':
        return rm.r_set(T, kc, rc, Cell(INT, vz), now)
    if kind == 'add':
        return rm.r_add(T, kc, rc, Cell(INT, vz), now)
    if kind == 'incr':
        return rm.r_incr(T, kc, rc, vz, 0, now)
    if kind == 'get':
        return rm.r_get(T, kc, rc, now)
    if kind == 'contains':
        return rm.r_contains(T, kc, rc, now)
    if kind == 'pop':
        return rm.r_pop(T, kc, rc, now)
    if kind == 'delete':
        return rm.r_delete(T, kc, rc, now)
    if kind == 'touch':
        return rm.r_touch(T, kc, rc, now, CNULL)
    raise ValueError(kind)


def ret_matches(kind, ret, res):
    """the python result of the real call equals the reference result"""
    if ret == 'timeout':
        return False
    if kind in ('set',):
        return ret is True
    if kind in ('add', 'contains', 'delete', 'touch'):
        if isinstance(ret, B):
            return sx.EqB(res.ok, sx._fold(ret.z))
        if not isinstance(ret, bool):
            return False
        return res.ok if ret else Not(res.ok)
    if kind == 'incr':
        return And(res.ok, is_num_like(ret) and True, EqR(zv(ret), res.cell.num)) if is_num_like(ret) else False
    if kind in ('get', 'pop'):
        if ret is None:
            return Not(res.ok)
        if is_num_like(ret):
            return And(res.ok, EqI(res.cell.cls, INT), EqR(zv(ret), res.cell.num))
        return False
    raise ValueError(kind)


def ob_pair(w, P):
    x = Ctx(w, P, cull_limit=0, kinds=('int',), tags=False)
    c = x.c
    core = w.L.core
    # no expiry in the pre-state: atomicity, not expiry, is the subject
    for rv in x.s.rowvars:
        assume(rv['expire_null'].z)
    ka, kca, rca = x.key('keyA')
    same_key = P.get('same_key', True)
    if same_key:
        kb, kcb, rcb = ka, kca, rca
    else:
        kb, kcb, rcb = x.key('keyB')
    va = x.s.v_int('valA', -2 ** 30, 2 ** 30)
    vb = x.s.v_int('valB', -2 ** 30, 2 ** 30)
    opA, opB = P['a'], P['b']
    same_object = P.get('who') == 'thread'
    other = c if same_object else w.clone_handle(c)
    at = x.s.v_int('at', 0, P.get('max_events', 14))
    res = {}

    def intruder():
        w.tid, old = 2, w.tid
        kb0 = len(w.times)
        try:
            try:
                res['B'] = run_op(other, opB, kb, vb)
            except core.Timeout:
                res['B'] = 'timeout'
            except KeyError:
                res['B'] = 'keyerror'
            res['tB'] = w.times[kb0] if len(w.times) > kb0 else None
        finally:
            w.tid = old
    if P.get('il'):
        # both calls suspended part-way: A up to event `at`, B up to its event `at2`, A to its end, B to its end
        at2 = x.s.v_int('at2', 0, P.get('max_events', 14))
        box = {}

        def run_a():
            try:
                box['rA'] = run_op(c, opA, ka, va)
            except core.Timeout:
                box['rA'] = 'timeout'

        def run_b():
            kb0 = len(w.times)
            try:
                res['B'] = run_op(other, opB, kb, vb)
            except core.Timeout:
                res['B'] = 'timeout'
            except KeyError:
                res['B'] = 'keyerror'
            res['tB'] = w.times[kb0] if len(w.times) > kb0 else None
        w.preconnect(other, (w.pid, 2))
        x.begin()
        w.interleave(run_a, run_b, at, at2, id_a=(w.pid, 1), id_b=(w.pid, 2))
        rA = box['rA']
    else:
        w.interfere_at = at
        w.interfere_hook = intruder
        x.begin()
        try:
            rA = run_op(c, opA, ka, va)
        except core.Timeout:
            rA = 'timeout'
    x.end()
    tA = x.times[0] if x.times else 0
    T0, T1 = x.T0, x.T1
    if 'B' not in res:
        # B never ran inside A (at beyond A's last event): plain sequential call
        TA, resA = ref_op(T0, opA, kca, rca, va, tA)
        x.add('C05', 'uninterrupted call matches the reference', And(ret_matches(opA, rA, resA), rm.table_eq(TA, T1)))
        return x.result()
    flag('interleaved')
    rB, tB = res['B'], res['tB'] if res['tB'] is not None else tA
    if rB == 'timeout' or rA == 'timeout':
        # the write lock was held: the losing call had no effect (C14) -- the other one must match alone
        flag('timeout_seen')
        if rB == 'timeout':
            TA, resA = ref_op(T0, opA, kca, rca, va, tA)
            x.add('C05,C14', 'a call refused by the lock has no effect; the other matches the reference', And(ret_matches(opA, rA, resA), rm.table_eq(TA, T1)))
        else:
            TB, resB = ref_op(T0, opB, kcb, rcb, vb, tB)
            x.add('C05,C14', 'a call refused by the lock has no effect; the other matches the reference', And(ret_matches(opB, rB, resB), rm.table_eq(TB, T1)))
        return x.result()
    # A;B
    TA, resA = ref_op(T0, opA, kca, rca, va, tA)
    TAB, resB_after = ref_op(TA, opB, kcb, rcb, vb, tB)
    ab = And(ret_matches(opA, rA, resA), ret_matches(opB, rB, resB_after), rm.table_eq(TAB, T1))
    # B;A
    TB, resB = ref_op(T0, opB, kcb, rcb, vb, tB)
    TBA, resA_after = ref_op(TB, opA, kca, rca, va, tA)
    ba = And(ret_matches(opB, rB, resB), ret_matches(opA, rA, resA_after), rm.table_eq(TBA, T1))
    alts = [ab, ba]
    # tolerated anomaly: a lookup overlapping a write/removal of the same key may report a miss
    samek = And(EqR(kca.num, kcb.num))
    if opA in LOOKUPS and opB not in LOOKUPS:
        miss = (rA is None) if opA == 'get' else (rA is False)
        alts.append(And(samek, miss, ret_matches(opB, rB, resB), rm.table_eq(TB, T1)))
    if opB in LOOKUPS and opA not in LOOKUPS:
        miss = (rB is None) if opB == 'get' else (rB is False)
        alts.append(And(samek, miss, ret_matches(opA, rA, resA), rm.table_eq(TA, T1)))
    x.add('C05', 'results and final state are those of the two calls executed one at a time in some order', OrL(alts))
    x.add('C05,C08', 'counters match afterwards', state.inv_table(T1))
    return x.result()


def ob_iter_suspended(w, P):
    """client A is part-way through an iteration (iterator advanced, not exhausted) when client B completes a write:
    every operation A starts afterwards sees B's write (real-time precedence) and A's own writes are not refused"""
    x = Ctx(w, P, cull_limit=0, kinds=('int',), tags=False)
    c = x.c
    core = w.L.core
    for rv in x.s.rowvars:
        assume(rv['expire_null'].z)
    assume(sx.zB(sx.LeI(2, x.T0.count())))  # the first result page holds two rows: the cursor stays open after the first
    how = P.get('how', 'iter')
    other = w.clone_handle(c)
    kb, kcb, rcb = x.key('keyB')
    vb = x.s.v_int('valB', -2 ** 30, 2 ** 30)
    ka, kca, rca = x.key('keyA')
    va = x.s.v_int('valA', -2 ** 30, 2 ** 30)
    x.begin()
    it = {'iter': lambda: iter(c), 'reversed': lambda: reversed(c), 'iterkeys': lambda: c.iterkeys()}[how]()
    first = next(it)
    w.tid, old = 2, w.tid
    try:
        rb = other.set(kb, vb)
    finally:
        w.tid = old
    seen = c.get(kb, default=None)
    try:
        ra = c.set(ka, va)
    except core.Timeout:
        ra = 'timeout'
    n_after = len(c)
    rest = list(it)
    x.end()
    x.add('C05', "a lookup started after another client's write completed sees it (also while an iteration is suspended)", EqR(zv(seen), zv(vb)) if is_num_like(seen) else False)
    x.add('C05,C14', 'a write by the iterating client is not refused while nobody holds the lock', ra is True)
    TB, _ = rm.r_set(x.T0, kcb, rcb, Cell(INT, zv(vb)), x.times[0] if x.times else 0)
    TBA, _ = rm.r_set(TB, kca, rca, Cell(INT, zv(va)), x.times[0] if x.times else 0)
    cols = [c_ for c_ in CACHE_COLS if c_ not in ('store_time', 'access_time')]
    x.add('C05', 'both writes are in the final state', rm.table_eq(TBA, x.T1, cols))
    x.add('C05,C03', 'len after the writes counts them', sx.EqI(zv(n_after), TBA.count()))
    return x.result()


def ob_triple(w, P):
    """three overlapping calls on one key: client A's call is interrupted at a symbolic event by client B's complete
    call, which is itself interrupted at a symbolic event by client C's complete call (three handles on the
    directory).  A call refused by the write lock has no effect; the results of the others and the final state are
    those of the admitted calls executed one at a time in some order."""
    import itertools
    x = Ctx(w, P, cull_limit=0, kinds=('int',), tags=False)
    c = x.c
    core = w.L.core
    for rv in x.s.rowvars:
        assume(rv['expire_null'].z)
    k, kc, rc = x.key('keyA')
    names = ['A', 'B', 'C']
    ops = dict(zip(names, P['ops'].split('+')))
    vals = {n: x.s.v_int('val%s' % n, -2 ** 30, 2 ** 30) for n in names}
    handles = {'A': c, 'B': w.clone_handle(c), 'C': w.clone_handle(c)}
    res, tms = {}, {}

    def run(n, tid):
        w.tid, old = tid, w.tid
        k0 = len(w.times)
        try:
            try:
                res[n] = run_op(handles[n], ops[n], k, vals[n])
            except core.Timeout:
                res[n] = 'timeout'
            tms[n] = w.times[k0] if len(w.times) > k0 else None
        finally:
            w.tid = old
    w.interfere_at = x.s.v_int('at', 0, P.get('max_events', 10))
    w.interfere_hook = lambda: run('B', 2)
    w.interfere2_at = x.s.v_int('at2', 0, P.get('max_events', 10))
    w.interfere2_hook = lambda: run('C', 3)
    x.begin()
    run('A', 1)
    x.end()
    if 'B' in res and 'C' in res:
        flag('nested_twice')
    tA = tms.get('A')
    if tA is None:
        tA = 0
    admitted = [n for n in names if n in res and res[n] != 'timeout']
    if any(res.get(n) == 'timeout' for n in names):
        flag('timeout_seen')
    alts = []
    for order in itertools.permutations(admitted):
        T = x.T0
        conj = []
        for n in order:
            T, r = ref_op(T, ops[n], kc, rc, vals[n], tms[n] if tms[n] is not None else tA)
            conj.append(ret_matches(ops[n], res[n], r))
        conj.append(rm.table_eq(T, x.T1))
        alts.append(AndL(conj))
    x.add('C05,C14', 'results and final state are those of the admitted calls executed one at a time in some order; a refused call has no effect', OrL(alts))
    x.add('C05,C08', 'counters match afterwards', state.inv_table(x.T1))
    return x.result()


def ob_pair_file(w, P):
    """a file-backed value is looked up / popped by client A while client B replaces it with another file-backed
    value, replaces it with an in-database value or removes it: A gets the old value or the new one in full -- never a
    mixture, a partial file or an unexpected exception; a lock-free lookup may instead report a miss (the tolerated
    anomaly), a transactional pop may not; afterwards rows and value files agree and nothing is left over."""
    x = Ctx(w, P, kinds=('file',), tags=False, key_lo=0, key_hi=1, min_file_size=0, alive_sym=False, cull_limit=0)
    for rv in x.s.rowvars:
        assume(rv['expire_null'].z)
    c = x.c
    core = w.L.core
    other = w.clone_handle(c)
    k = int(x.s.rowvars[0]['key'])
    opA, opB = P['a'], P['b']
    vb = x.s.v_int('valB', -2 ** 30, 2 ** 30)
    res = {}

    def intruder():
        w.tid, old = 2, w.tid
        try:
            try:
                if opB == 'setf':
                    res['B'] = other.set(k, b'xyzw')
                elif opB == 'seti':
                    res['B'] = other.set(k, vb)
                elif opB == 'delete':
                    res['B'] = other.delete(k)
                elif opB == 'pop':
                    res['B'] = other.pop(k, default=None)
            except core.Timeout:
                res['B'] = 'timeout'
        finally:
            w.tid = old
    w.interfere_at = x.s.v_int('at', 0, P.get('max_events', 14))
    w.interfere_hook = intruder
    x.begin()
    try:
        if opA == 'get':
            rA = ('ok', c.get(k, default=None))
        elif opA == 'getitem':
            rA = ('ok', c[k])
        elif opA == 'pop':
            rA = ('ok', c.pop(k, default=None))
        elif opA == 'peekitem':
            rA = ('ok', c.peekitem()[1])
        else:
            raise ValueError(opA)
    except KeyError:
        rA = ('ok', None)
    except core.Timeout:
        rA = ('timeout', None)
    x.end()
    if 'B' not in res:
        return x.result()
    flag('interleaved')
    old = x.T0.lookup(Cell(INT, k), Cell(INT, 1))
    v = rA[1]
    b_admitted = res['B'] != 'timeout'
    is_old = x.value_matches(v, old) if v is not None else False
    is_new = False
    if b_admitted and v is not None:
        if opB == 'setf':
            is_new = isinstance(v, bytes) and v == b'xyzw'
        elif opB == 'seti':
            is_new = EqR(zv(v), zv(vb)) if is_num_like(v) else False
    b_removed = b_admitted and opB in ('delete', 'pop')
    lockfree = opA in ('get', 'getitem', 'peekitem')
    if rA[0] == 'timeout':
        flag('timeout_seen')
        x.add('C05,C14', 'a pop refused by the lock leaves the other call in full effect', True)
    else:
        miss_ok = (v is None) and (b_removed or (lockfree and b_admitted))
        x.add('C05,C01', 'the reader gets the old value or the new value in full (or a miss where one is allowed) -- never a mixture', Or(is_old, is_new, miss_ok))
    if opB == 'pop' and b_admitted and rA[0] != 'timeout' and opA == 'pop':
        rb = res['B']
        x.add('C05', 'two overlapping pops: exactly one of them gets the value', Or(And(is_old, rb is None), And(v is None, x.value_matches(rb, old) if rb is not None else False)))
    x.add('C05,C08', 'afterwards counters match', state.inv_table(x.T1))
    x.add('C05,C08', 'afterwards every row has its value file and no file is left over', x.s.fs_inv(x.T1))
    return x.result()


def ob_store_vs_prune(w, P):
    """client A stores a file-backed value under a new key while client B removes (delete / pop / replace by an
    in-database value) the last file-backed item living in the very sub-directory A's new value file is going to:
    B's removal prunes the emptied directory between any two of A's file operations.  Both calls take effect."""
    x = Ctx(w, P, kinds=('file',), tags=False, key_lo=0, key_hi=1, min_file_size=0, alive_sym=False, cull_limit=0)
    for rv in x.s.rowvars:
        assume(rv['expire_null'].z)
    w.urandom_prefix = bytes.fromhex('f05b')  # row 0's value file lives in f0/5b
    c = x.c
    core = w.L.core
    other = w.clone_handle(c)
    k = int(x.s.rowvars[0]['key'])
    k2 = k + 5
    opA, opB = P['a'], P['b']
    res = {}

    def intruder():
        w.tid, old = 2, w.tid
        try:
            try:
                res['B'] = {'delete': lambda: other.delete(k), 'pop': lambda: other.pop(k, default=None) is not None, 'seti': lambda: other.set(k, 5)}[opB]()
            except core.Timeout:
                res['B'] = 'timeout'
        finally:
            w.tid = old
    w.interfere_at = x.s.v_int('at', 0, P.get('max_events', 14))
    w.interfere_hook = intruder
    x.begin()
    try:
        rA = {'setf': lambda: c.set(k2, b'abcd'), 'addf': lambda: c.add(k2, b'abcd'), 'pushf': lambda: c.push(b'abcd') is not None}[opA]()
    except core.Timeout:
        rA = 'timeout'
    x.end()
    if 'B' not in res:
        return x.result()
    flag('interleaved')
    if w.interfered_at[1] == 'fs':
        flag('between_file_operations')
    if rA == 'timeout' or res['B'] == 'timeout':
        flag('timeout_seen')
    x.add('C05', 'the store succeeds (or is refused by the write lock) -- a concurrent removal that prunes the directory does not make it fail', rA is True or rA == 'timeout')
    T1 = x.T1
    if rA is True and opA != 'pushf':
        it = T1.lookup(Cell(INT, k2), Cell(INT, 1))
        x.add('C05,C01', 'the stored item is there with its value file', And(it.present, EqR(it.c['mode'].num, 2)))
        got = c.get(k2)
        x.add('C05,C01', 'and reads back in full', (got == b'abcd') if isinstance(got, bytes) else x.value_matches(got, it))
    if res['B'] is True:
        it0 = T1.lookup(Cell(INT, k), Cell(INT, 1))
        x.add('C05', "the other client's removal took effect", Not(it0.present) if opB != 'seti' else And(it0.present, EqR(it0.c['mode'].num, 1)))
    x.add('C05,C08', 'afterwards counters match', state.inv_table(T1))
    x.add('C05,C08', 'afterwards every row has its value file and no file is left over', x.s.fs_inv(T1))
    return x.result()


def ob_pair_seq(w, P):
    """client A's call on key k is interrupted at a symbolic event by TWO complete calls of client B: a removal of k followed by
    a write of another key (which SQLite gives the rowid just freed when k held the largest one).  Results and final
    state are those of A, B1, B2 executed one at a time in an order that keeps B1 before B2: in particular A must
    not act on a row it looked up before B replaced it (stale rowid)."""
    import itertools
    x = Ctx(w, P, cull_limit=0, kinds=('int',), tags=False)
    c = x.c
    core = w.L.core
    for rv in x.s.rowvars:  # no expiry in the pre-state: atomicity is the subject (touch still writes one)
        assume(rv['expire_null'].z)
    k, kc, rc = x.key('keyA')
    k2, kc2, rc2 = x.key('keyB')
    assume(sx.zB(NeR(kc.num, kc2.num)))
    opA = P['a']
    ops = {'A': (opA, k, kc, rc), 'B1': (P.get('b1', 'delete'), k, kc, rc), 'B2': (P.get('b2', 'set'), k2, kc2, rc2)}
    vals = {n: x.s.v_int('val%s' % n, -2 ** 30, 2 ** 30) for n in ops}
    other = w.clone_handle(c)
    res, tms = {}, {}

    def run(n, h):
        kind, kk, _, _ = ops[n]
        k0 = len(w.times)
        try:
            if kind == 'touch':
                res[n] = h.touch(kk, vals[n] if P.get('touch_expire', True) else None)
            else:
                res[n] = run_op(h, kind, kk, vals[n])
        except core.Timeout:
            res[n] = 'timeout'
        tms[n] = w.times[k0] if len(w.times) > k0 else None

    def intruder():
        w.tid, old = 2, w.tid
        try:
            run('B1', other)
            run('B2', other)
        finally:
            w.tid = old
    w.interfere_at = x.s.v_int('at', 0, P.get('max_events', 10))
    w.interfere_hook = intruder
    x.begin()
    run('A', c)
    x.end()
    if 'B1' not in res:
        return x.result()
    flag('interleaved')
    t_any = next((t for t in tms.values() if t is not None), 0)
    admitted = [n for n in ops if res.get(n) != 'timeout']
    if len(admitted) < 3:
        flag('timeout_seen')

    def ref(T, n):
        kind, _, kcn, rcn = ops[n]
        now = tms[n] if tms[n] is not None else t_any
        if kind == 'touch':
            ec = Cell(sqlmodel.REAL, AddR(now, zv(vals[n]))) if P.get('touch_expire', True) else CNULL
            return rm.r_touch(T, kcn, rcn, now, ec)
        return ref_op(T, kind, kcn, rcn, vals[n], now)
    alts = []
    for order in itertools.permutations(admitted):
        if 'B1' in order and 'B2' in order and order.index('B1') > order.index('B2'):
            continue
        T = x.T0
        conj = []
        for n in order:
            T, r = ref(T, n)
            conj.append(ret_matches(ops[n][0], res[n], r))
        conj.append(rm.table_eq(T, x.T1))
        alts.append(AndL(conj))
    w._dbg = (dict(res), dict(tms), admitted)
    x.add('C05,C04', 'results and final state are those of A, B1, B2 one at a time (B1 before B2); a refused call has no effect', OrL(alts))
    x.add('C05,C08', 'counters match afterwards', state.inv_table(x.T1))
    return x.result()


def ob_il_block(w, P):
    """two threads share one Cache object; both are suspended part-way (not well-nested).  Thread A replaces a file-backed value
    (its call goes on after COMMIT: the old file is removed); thread B runs a transaction block with a nested write.  A
    client is refused (Timeout) only if it asked for the lock while the other one really held it; otherwise both take effect;
    afterwards rows, counters and files agree."""
    x = Ctx(w, P, kinds=('file',), tags=False, min_file_size=0, cull_limit=0, alive_sym=False, key_lo=0, key_hi=1)
    c = x.c
    core = w.L.core
    for rv in x.s.rowvars:
        assume(rv['expire_null'].z)
    krow = int(x.s.rowvars[0]['key'])
    same_object = P.get('who', 'thread') == 'thread'
    other = c if same_object else w.clone_handle(c)
    vb = x.s.v_int('valB', -2 ** 30, 2 ** 30)
    opA, opB = P.get('a', 'setf'), P.get('b', 'block_set')
    box = {}

    def run_a():
        try:
            if opA == 'setf':
                box['A'] = c.set(krow, b'replacement')
            elif opA == 'pop':
                box['A'] = c.pop(krow, default=None) is not None
            elif opA == 'delete':
                box['A'] = c.delete(krow)
            elif opA == 'setnew':
                box['A'] = c.set(krow + 7, b'replacement')
            elif opA == 'addnew':
                box['A'] = c.add(krow + 7, b'replacement')
            elif opA == 'get_close':
                # a lookup and then close(): closes this thread's own connection only -- the other thread's open block goes on
                c.get(krow)
                c.close()
                box['A'] = True
        except core.Timeout:
            box['A'] = 'timeout'

    def run_b():
        try:
            if opB == 'block_set':
                with other.transact():
                    box['B'] = other.set(krow + 5, vb)
            elif opB == 'block_incr':
                with other.transact():
                    other.set(krow + 5, 1)
                    box['B'] = bool(other.incr(krow + 5, 1) == 2)
            elif opB == 'set':
                box['B'] = other.set(krow + 5, vb)
            elif opB == 'block_raise':
                class _Stop(Exception):
                    pass
                try:
                    with other.transact():
                        other.set(krow + 5, vb)
                        raise _Stop()
                except _Stop:
                    box['B'] = 'aborted'
            elif opB == 'block_replace':
                # the block replaces a file-backed value (the superseded file goes when the block commits) and completes
                with other.transact():
                    box['B'] = other.set(krow, b'second-file-value')
            elif opB == 'block_pop_raise':
                # the block takes a file-backed item (its file is queued for removal at B's COMMIT) and is then abandoned
                class _Stop2(Exception):
                    pass
                try:
                    with other.transact():
                        other.pop(krow, default=None)
                        raise _Stop2()
                except _Stop2:
                    box['B'] = 'aborted'
        except core.Timeout:
            box['B'] = 'timeout'
    at = x.s.v_int('at', 0, P.get('max_events', 12))
    at2 = x.s.v_int('at2', 0, P.get('max_events', 12))
    w.preconnect(other, (w.pid, 2) if same_object else (w.pid + 100, 1))
    x.begin()
    il = w.interleave(run_a, run_b, at, at2, id_a=(w.pid, 1), id_b=(w.pid, 2) if same_object else (w.pid + 100, 1))
    x.end()
    if not il.b_started:
        return x.result()
    T1 = x.T1
    for n in ('A', 'B'):
        if box.get(n) == 'timeout':
            flag('timeout_seen')
            x.add('C05,C14,C06', 'client %s is refused only when it asked for the write lock while the other client held it' % n, il.was_blocked[n])
        elif box.get(n) == 'aborted':
            flag('block_aborted')
        else:
            x.add('C05', 'client %s succeeded' % n, box.get(n) is True)
    itb = T1.lookup(Cell(INT, krow + 5), Cell(INT, 1))
    if box.get('B') == 'aborted':
        x.add('C05,C06', "an aborted block left nothing (and took nothing of the other client's with it)", Not(itb.present))
    if box.get('B') is True and opB == 'block_replace':
        itr = T1.lookup(Cell(INT, krow), Cell(INT, 1))
        x.add('C05,C06', "B's replacement is there", And(itr.present, EqR(itr.c['mode'].num, 2)))
    elif box.get('B') is True:
        x.add('C05,C06', "B's write is there", And(itb.present, EqI(itb.c['value'].cls, INT)))
    elif box.get('B') == 'timeout':
        x.add('C05,C14', "a refused block left nothing", Not(itb.present))
    ita = T1.lookup(Cell(INT, krow + 7 if opA in ('setnew', 'addnew') else krow), Cell(INT, 1))
    if opA in ('setnew', 'addnew') and box.get('A') == 'timeout':
        x.add('C05,C14', 'a call that was refused the lock has no effect', Not(ita.present))
    if opA == 'get_close':
        x.add('C06,C05', "close() in one thread leaves the other thread's block alone", box.get('A') is True and box.get('B') in (True, 'aborted'))
    elif box.get('A') is True:
        x.add('C05', "A's write / removal took effect", ita.present if opA in ('setf', 'setnew', 'addnew') else Not(ita.present))
    if opB == 'block_pop_raise' and opA == 'setnew' and box.get('B') in ('aborted', 'timeout'):
        x.add('C05,C06,C07', 'the item an abandoned block had taken is still there', T1.lookup(Cell(INT, krow), Cell(INT, 1)).present)
    x.add('C05,C08', 'counters match', state.inv_table(T1))
    x.add('C05,C08', 'every row has its value file and no file is left over', x.s.fs_inv(T1))
    x.add('C05,C06', 'no transaction is left open or owned', c._txn_id is None and other._txn_id is None)
    return x.result()


def jobs(tier):
    out = []
    for how in ('iter', 'reversed', 'iterkeys'):
        out.append(dict(id='iter_suspended.%s' % how, func='ob_iter_suspended', params=dict(N=2, how=how, page=2), tags=['C05', 'C03', 'C18'], weight=6,
                        functions=['core.Cache._iter', 'core.Cache.iterkeys', 'core.Cache.get', 'core.Cache.set']))
    triples = ['incr+incr+incr', 'add+add+add', 'pop+pop+set', 'set+incr+delete', 'add+delete+add', 'incr+set+pop'] 
    for t in triples:
        out.append(dict(id='triple.%s' % t, func='ob_triple', params=dict(N=1, ops=t), tags=['C05', 'C08', 'C14'], weight=20, must_reach=['nested_twice'],
                        functions=['core.Cache.%s' % f for f in set(t.split('+'))] + ['core.Cache._transact']))
    for a in ('get', 'getitem', 'pop', 'peekitem'):
        for b in ('setf', 'seti', 'delete', 'pop'):
            out.append(dict(id='pair_file.%s.%s' % (a, b), func='ob_pair_file', params=dict(N=1, a=a, b=b), tags=['C05', 'C01', 'C08'], weight=6, must_reach=['interleaved'],
                            functions=['core.Cache.get', 'core.Cache.pop', 'core.Cache.set', 'core.Cache.delete', 'core.Cache.peekitem', 'core.Disk.fetch', 'core.Disk.store', 'core.Disk.remove']))
    for a in ('setf', 'pop', 'delete'):
        for b in ('block_set', 'block_incr', 'set', 'block_raise'):
            for who in ('thread', 'handle'):
                out.append(dict(id='il_block.%s.%s.%s' % (a, b, who), func='ob_il_block', params=dict(N=1, a=a, b=b, who=who), tags=['C05', 'C06', 'C14', 'C08', 'C20'], weight=10,
                                must_reach=['both_suspended'], functions=['core.Cache._transact', 'core.Cache.transact', 'core.Cache.set', 'core.Cache.pop', 'core.Disk.remove']))
    for b in ('block_incr', 'block_raise'):
        out.append(dict(id='il_block.get_close.%s.thread' % b, func='ob_il_block', params=dict(N=1, a='get_close', b=b, who='thread'), tags=['C06', 'C05', 'C18'], weight=10,
                        must_reach=['both_suspended'], functions=['core.Cache._transact', 'core.Cache.transact', 'core.Cache.close', 'core.Cache.get', 'core.Cache.set', 'core.Cache.incr']))
    for who in ('thread', 'handle'):
        out.append(dict(id='il_block.addnew.block_set.%s' % who, func='ob_il_block', params=dict(N=1, a='addnew', b='block_set', who=who), tags=['C05', 'C14', 'C08'], weight=10,
                        must_reach=['both_suspended'], functions=['core.Cache._transact', 'core.Cache.transact', 'core.Cache.add', 'core.Cache._cull']))
    out.append(dict(id='il_block.setnew.block_replace.thread', func='ob_il_block', params=dict(N=1, a='setnew', b='block_replace', who='thread'), tags=['C06', 'C05', 'C08'], weight=10,
                    must_reach=['both_suspended'], functions=['core.Cache._transact', 'core.Cache.transact', 'core.Cache.set', 'core.Disk.remove']))
    for who in ('thread', 'handle'):
        out.append(dict(id='il_block.setnew.block_pop_raise.%s' % who, func='ob_il_block', params=dict(N=1, a='setnew', b='block_pop_raise', who=who),
                        tags=['C05', 'C06', 'C07', 'C08'], weight=10, must_reach=['both_suspended', 'block_aborted'],
                        functions=['core.Cache._transact', 'core.Cache.transact', 'core.Cache.set', 'core.Cache.pop', 'core.Disk.remove']))
    for a in ('touch', 'incr', 'set', 'add', 'pop', 'delete', 'get'):
        for b1 in ('delete', 'pop'):
            out.append(dict(id='pair_seq.%s.%s+set' % (a, b1), func='ob_pair_seq', params=dict(N=1 if tier == 'quick' else 2, a=a, b1=b1, b2='set'), tags=['C05', 'C04', 'C08'] + (['C02', 'C19'] if a == 'pop' else []), weight=8,
                            must_reach=['interleaved'], functions=['core.Cache.%s' % a, 'core.Cache.delete', 'core.Cache.set', 'core.Cache._transact']))
    for a in ('setf', 'addf', 'pushf'):
        for b in ('delete', 'pop', 'seti'):
            out.append(dict(id='store_vs_prune.%s.%s' % (a, b), func='ob_store_vs_prune', params=dict(N=1, a=a, b=b), tags=['C05', 'C01', 'C08'] + (['C10', 'C11'] if a == 'pushf' else []), weight=6,
                            must_reach=['between_file_operations'], functions=['core.Disk.store', 'core.Disk._write', 'core.Disk.remove', 'core.Disk.filename', 'core.Cache.set', 'core.Cache.delete']))
    Ns = [1] if tier == 'quick' else [1, 2]
    writers = ['set', 'add', 'incr', 'pop', 'delete', 'touch']
    pairs = []
    for a in writers:
        for b in writers:
            pairs.append((a, b))
    for a in writers:
        pairs.append((a, 'get'))
        pairs.append(('get', a))
        pairs.append(('contains', a))
    if tier == 'quick':
        keep = {('add', 'add'), ('incr', 'incr'), ('pop', 'pop'), ('delete', 'delete'), ('set', 'set'), ('set', 'incr'), ('incr', 'set'), ('pop', 'set'), ('add', 'delete'),
                ('delete', 'add'), ('touch', 'set'), ('incr', 'pop'), ('set', 'get'), ('get', 'set'), ('get', 'pop'), ('pop', 'get'), ('contains', 'delete'), ('get', 'incr'), ('incr', 'delete')}
        pairs = [p for p in pairs if p in keep]
    for N in Ns:
        for a, b in pairs:
            for who in ('handle', 'thread'):
                out.append(dict(id='pair.%s.%s.%s.N=%d' % (a, b, who, N), func='ob_pair', params=dict(N=N, a=a, b=b, who=who), tags=['C05', 'C08', 'C14'], weight=N * 4,
                                must_reach=['interleaved'],
                                functions=['core.Cache.%s' % {'contains': '__contains__'}.get(f, f) for f in {a, b}] + ['core.Cache._transact']))
        il_pairs = [('delete', 'set'), ('delete', 'incr'), ('incr', 'incr'), ('set', 'incr'), ('add', 'add'), ('pop', 'pop'), ('add', 'delete'), ('touch', 'set'), ('get', 'set'), ('set', 'get'), ('pop', 'get'), ('incr', 'pop')]
        for a, b in (il_pairs if N == 1 else il_pairs[:6]):
            for who in ('handle', 'thread'):
                out.append(dict(id='pair_il.%s.%s.%s.N=%d' % (a, b, who, N), func='ob_pair', params=dict(N=N, a=a, b=b, who=who, il=True, max_events=8), tags=['C05', 'C08', 'C14'], weight=N * 10,
                                must_reach=['both_suspended'], functions=['core.Cache.%s' % f for f in {a, b}] + ['core.Cache._transact']))
        if tier != 'quick':
            for a, b in [('set', 'incr'), ('incr', 'incr'), ('add', 'add'), ('pop', 'delete')]:
                out.append(dict(id='pair.%s.%s.handle.diffkey.N=%d' % (a, b, N), func='ob_pair', params=dict(N=N, a=a, b=b, who='handle', same_key=False), tags=['C05', 'C08'],
                                weight=N * 6, must_reach=['interleaved'], functions=['core.Cache._transact']))
    return out
