"""C06: transaction blocks -- all-or-nothing, isolated, nestable, thread-owned."""
from symdc import sx, spec, state, scn as scn_mod, sqlmodel, env
from symdc.sx import (And, Or, Not, Implies, EqI, NeI, EqR, NeR, LtR, LeR, AndL, OrL, Count, simp, isz)
from symdc.zpath import I, R, B, assume, flag
from symdc.sqlmodel import Cell, CNULL, NULL, INT, REAL, TEXT
from symdc.state import same_cols, CACHE_COLS
from symdc.spec import unchanged
from obligations.cache_ops import Ctx, zv, SHORT, directive_aware


class Boom(Exception):
    pass


class BoomBase(BaseException):
    """stands for KeyboardInterrupt / SystemExit / GeneratorExit leaving the block"""


def do_op(c, kind, k, v, tag=None):
    if kind == 'set':
        return c.set(k, v)
    if kind == 'setf':
        return c.set(k, b'xyzw')
    if kind == 'add':
        return c.add(k, v)
    if kind == 'delete':
        return c.delete(k)
    if kind == 'pop':
        return c.pop(k)
    if kind == 'incr':
        try:
            return c.incr(k, 1)
        except TypeError:
            return None
    if kind == 'touch':
        return c.touch(k, 5)
    if kind == 'push':
        return c.push(v)
    if kind == 'pull':
        return c.pull()
    if kind == 'clear':
        return c.clear()
    if kind == 'expire':
        return c.expire()
    if kind == 'evict':
        return c.evict(tag)
    raise ValueError(kind)


@directive_aware
def ob_block(w, P):
    """a block of 1-2 operations that raises after a symbolic number of them (or completes)"""
    x = Ctx(w, P, min_file_size=0 if ('setf' in P['ops'] or P.get('prelude')) else 2 ** 15)
    c = x.c
    if P.get('prelude'):
        # an ordinary committed write of a file-backed value through the same handle, before the block: state kept in
        # the object between calls must not leak into the next transaction
        kp = x.s.v_int('prelude_key', -2 ** 63, 2 ** 63 - 1)
        c.set(kp, b'prelude-value')
        x.T0 = x.s.snapshot()
        flag('prelude')
    ops = P['ops'].split('+')
    nested = P.get('nested', False)
    if 'push' in ops:
        from obligations.queue_ops import assume_margin
        assume_margin(x)
    keys = [x.key('key%d' % i) for i in range(len(ops))]
    vals = [x.s.v_int('val%d' % i, -2 ** 40, 2 ** 40) for i in range(len(ops))]
    raise_at = x.s.v_int('raise_at', 0, len(ops))  # == len(ops): the block completes
    etag = x.opt_tag('etag') if 'evict' in ops else None

    swallowed = []

    def body():
        with c.transact():
            for i, kind in enumerate(ops):
                if raise_at == i:
                    raise (BoomBase() if P.get('exc') == 'base' else Boom())
                if nested:
                    with c.transact():
                        do_op(c, kind, keys[i][0], vals[i], etag)
                elif P.get('fault_swallow'):
                    # one injected failure (database error at a statement, OS error at a file operation) inside an operation of the
                    # block; the caller handles it and the block goes on and commits
                    try:
                        do_op(c, kind, keys[i][0], vals[i], etag)
                    except (w.sqlite3.OperationalError, OSError) as e:
                        if 'injected' not in str(e):
                            raise
                        swallowed.append(i)
                        flag('fault_swallowed')
                else:
                    do_op(c, kind, keys[i][0], vals[i], etag)
    if P.get('fault_swallow'):
        w.fault_at = x.s.v_int('fault_at', 0, P.get('max_events', 24))
    if P.get('crash'):
        # the process is killed at a symbolic event inside the block: all-or-nothing for the whole block, every committed
        # row keeps its value file (Ctx.call raises the kill outcome)
        from obligations.cache_ops import Outcome
        for rv in x.s.rowvars:  # delete/pop leave an expired row alone: expiry is not the subject here
            assume(rv['expire_null'].z)
        assume(sx.zB(Not(And(EqI(keys[0][1].cls, keys[1][1].cls), EqR(keys[0][1].num, keys[1][1].num)))))
        try:
            x.call(body, expect=(Boom, BoomBase))
        except Outcome as o:
            cl = list(o.clauses)
            done = []
            for i, kind in enumerate(ops):
                it = x.T1.lookup(keys[i][1], keys[i][2])
                if kind == 'set':
                    done.append(And(it.present, EqI(it.c['value'].cls, INT), EqR(it.c['value'].num, zv(vals[i]))))
                elif kind == 'setf':
                    done.append(And(it.present, EqR(it.c['mode'].num, 2)))
                elif kind in ('delete', 'pop'):
                    done.append(Not(it.present))
            cl.append(('C07,C06', 'a block interrupted by a kill took effect completely or not at all',
                       Or(And(unchanged(x.T0, x.T1), spec.same_count(x.T0, x.T1)), AndL(done))))
            raise Outcome(cl)
        return x.result()
    x.begin()
    raised = False
    try:
        body()
    except (Boom, BoomBase):
        raised = True
    except (w.sqlite3.OperationalError, OSError, w.L.core.Timeout) as e:
        if not (P.get('fault_swallow') and ('injected' in str(e) or isinstance(e, w.L.core.Timeout))):
            raise
        raised = True  # the failure hit the block's own BEGIN / COMMIT or a statement outside the operations: the block is abandoned
        flag('fault_escaped')
    x.end()
    if P.get('fault_swallow'):
        w.fault_at = None
        if not raised:
            flag('block_committed')
        x.add('C08,C06', 'after a block in which one operation failed (and was handled) the counters match', state.inv_table(x.T1))
        x.add('C08,C06', 'and every row has its value file and no file is left over', x.s.fs_inv(x.T1))
        x.add('C06', 'the transaction is closed and no longer owned when the block exits', c._txn_id is None)
        return x.result()
    log = [d for (_, kind, d) in w.log if kind == 'sql']
    begins = sum(1 for d in log if d.startswith('BEGIN'))
    ends = sum(1 for d in log if d.startswith(('COMMIT', 'ROLLBACK')))
    x.add('C06', 'only the outermost block begins and ends a database transaction', begins == 1 and ends == 1)
    x.add('C06', 'the transaction is closed and no longer owned when the block exits', c._txn_id is None)
    if raised:
        flag('block_raised')
        x.add('C06', 'an aborted block ends with ROLLBACK', any(d.startswith('ROLLBACK') for d in log))
        x.add('C06,C08', 'an aborted block leaves every item exactly as before', And(unchanged(x.T0, x.T1), spec.same_count(x.T0, x.T1)))
        x.add('C06,C08', 'after an aborted block the counters match', state.inv_table(x.T1))
        x.add('C06,C08', 'after an aborted block every item still has its value file and no file is left over', x.s.fs_inv(x.T1))
    else:
        flag('block_committed')
        x.add('C06', 'a completed block ends with COMMIT', any(d.startswith('COMMIT') for d in log))
        x.add('C06,C08', 'after a completed block the counters match', state.inv_table(x.T1))
        x.add('C06,C08', 'after a completed block rows and files agree', x.s.fs_inv(x.T1))
    return x.result()


def ob_block_isolation(w, P):
    """while a block is open, a write by another client (own handle) or by another thread using the same object
    does not take effect: it times out; a lock-free read by the other client sees the committed state"""
    x = Ctx(w, P, cull_limit=0)
    c = x.c
    core = w.L.core
    k0, kc0, rc0 = x.key('key0')
    v0 = x.s.v_int('val0', -2 ** 40, 2 ** 40)
    k1, kc1, rc1 = x.key('key1')
    same_object = P.get('who') == 'thread'
    other = c if same_object else w.clone_handle(c)
    at = x.s.v_int('at', 0, P.get('max_events', 12))
    res = {}

    def intruder():
        w.tid, old = 2, w.tid
        try:
            try:
                res['ret'] = other.set(k1, 77)
            except core.Timeout:
                res['ret'] = 'timeout'
            res['seen'] = other.get(k0, default=-7) if not same_object else None
        finally:
            w.tid = old
    w.interfere_at = at
    w.interfere_hook = intruder
    Tmid = {}
    x.begin()
    with c.transact():
        c.set(k0, v0)
        Tmid['in'] = True
        c.touch(k0, 3)
    x.end()
    if 'ret' in res:
        flag('intruded')
        inside = [e for e in w.log if e[1] == 'sql']
        # the intruder ran at an event boundary after BEGIN and before COMMIT iff the lock was held
        i_at = w.interfered_at[0]
        begin_i = next(i for i, kind, d in w.log if kind == 'sql' and d.startswith('BEGIN'))
        commit_i = next(i for i, kind, d in w.log if kind == 'sql' and d.startswith('COMMIT'))
        if begin_i < i_at <= commit_i:
            flag('intruded_inside')
            x.add('C06,C05', "another client's write inside the block's extent does not take effect (it times out)", res['ret'] == 'timeout')
            new1 = x.T1.lookup(kc1, rc1)
            old1 = x.T0.lookup(kc1, rc1)
            x.add('C06', 'the refused write left no trace', Or(sx.EqR(kc0.num, kc1.num), And(sx.EqB(new1.present, old1.present), Implies(old1.present, same_cols(new1, old1, CACHE_COLS)))))
            if not same_object:
                old0 = x.T0.lookup(kc0, rc0)
                seen = res['seen']
                # the other client's lock-free read sees the committed (pre-block) state of key0
                from obligations.cache_ops import is_num_like
                ok_seen = Or(And(Not(old0.present), is_num_like(seen) and True, EqR(zv(seen), -7)) if is_num_like(seen) else False,
                             And(old0.present, x.value_matches(seen, old0)),
                             And(old0.present, is_num_like(seen) and True, EqR(zv(seen), -7)) if is_num_like(seen) else False)
                x.add('C06', "a concurrent reader sees none of the block's uncommitted effects", ok_seen)
        else:
            x.add('C06', 'outside the block the other write simply succeeds', res['ret'] is True)
    x.add('C06,C08', 'counters match after the block', state.inv_table(x.T1))
    return x.result()


def ob_block_files_intruded(w, P):
    """a block that replaces / removes file-backed values and stores new ones is open while a write by another thread
    through the same object (or by another handle) is attempted and refused; the block then commits or raises.  The
    refused write must not disturb the block's own file bookkeeping: afterwards every row has its value file and no
    file is left over."""
    x = Ctx(w, P, kinds=('file',), tags=False, min_file_size=0, cull_limit=0, alive_sym=False, key_lo=0, key_hi=1)
    c = x.c
    core = w.L.core
    for rv in x.s.rowvars:
        assume(rv['expire_null'].z)
    krow = int(x.s.rowvars[0]['key'])
    same_object = P.get('who') == 'thread'
    other = c if same_object else w.clone_handle(c)
    res = {}
    retry = P.get('retry', False)

    def intruder():
        w.tid, old = 2, w.tid
        try:
            try:
                res['ret'] = other.set(krow + 7, b'intruder', retry=False) if not retry else other.add(krow + 7, b'intruder')
            except core.Timeout:
                res['ret'] = 'timeout'
        finally:
            w.tid = old
    w.interfere_at = x.s.v_int('at', 0, P.get('max_events', 16))
    w.interfere_hook = intruder
    raise_end = bool(x.s.v_bool('raise_at_end'))
    x.begin()
    try:
        with c.transact():
            c.set(krow + 3, b'new-file-value')  # a file created inside the block
            c.set(krow, b'replacement')         # replaces a file-backed value: the old file goes after COMMIT
            if raise_end:
                raise Boom()
    except Boom:
        pass
    x.end()
    if 'ret' in res:
        flag('intruded')
        if res['ret'] == 'timeout':
            flag('refused_inside')
    if raise_end:
        flag('block_raised')
        x.add('C06,C14,C08', 'an aborted block leaves every item as before also when a write was refused meanwhile', Or('ret' in res and res['ret'] is True, And(unchanged(x.T0, x.T1), spec.same_count(x.T0, x.T1))))
    else:
        flag('block_committed')
        it = x.T1.lookup(Cell(INT, krow), Cell(INT, 1))
        x.add('C06,C14', 'a completed block leaves its writes also when a write was refused meanwhile', And(it.present, x.T1.lookup(Cell(INT, krow + 3), Cell(INT, 1)).present))
    x.add('C06,C14,C08', 'counters match', state.inv_table(x.T1))
    x.add('C06,C14,C08', 'every row has its value file and no value file is left over (the refused write did not disturb the cleanup lists of the open block)', x.s.fs_inv(x.T1))
    return x.result()


def ob_completed_then_kill(w, P):
    """C07, durability of what has completed: a transaction block is left by an exception (ordinary or BaseException such as
    GeneratorExit / KeyboardInterrupt), the process carries on and completes ordinary writes -- each returns normally --
    and is then killed.  Every write that completed is there for the next process, in full; the aborted block is not."""
    import os
    x = Ctx(w, P, cull_limit=0, kinds=('int',), tags=False, min_file_size=0)
    c = x.c
    for rv in x.s.rowvars:
        assume(rv['expire_null'].z)
    k0, kc0, rc0 = x.key('key0')
    k1, kc1, rc1 = x.key('key1')
    k2, kc2, rc2 = x.key('key2')
    assume(sx.zB(And(NeR(kc0.num, kc1.num), NeR(kc0.num, kc2.num), NeR(kc1.num, kc2.num))))
    v1 = x.s.v_int('val1', -2 ** 30, 2 ** 30)
    exc = {'base': BoomBase, 'exc': Boom, 'none': None}[P.get('exc', 'base')]
    how = P.get('how', 'block')

    def life():
        if exc is not None:
            try:
                if how == 'generator':
                    def gen():
                        with c.transact():
                            yield c.get(k0, default=None)
                    g = gen()
                    next(g)
                    g.close()  # GeneratorExit is raised inside the block
                else:
                    with c.transact():
                        c.set(k0, 5)
                        raise exc()
            except (Boom, BoomBase):
                pass
        r1 = c.set(k1, v1)
        r2 = c.set(k2, b'file-value')
        return r1, r2
    x.begin()
    if w.is_real:
        rd, wr = os.pipe()
        pid = os.fork()
        if pid == 0:
            try:
                w.stop_events()
                w.pid += 1
                c._con
                try:
                    r = life()
                    os.write(wr, b'1' if r == (True, True) else b'0')
                except BaseException:
                    os.write(wr, b'E')
                import signal
                os.kill(os.getpid(), signal.SIGKILL)
            finally:
                os._exit(0)
        os.close(wr)
        os.waitpid(pid, 0)
        done = os.read(rd, 1)
        os.close(rd)
        completed = done == b'1'
    else:
        r = life()
        completed = r == (True, True)
        w.recover()  # the process dies: whatever it had not committed is gone, its locks are released
    x.end()
    flag('killed_after_completion')
    x.add('C07', 'the writes after the aborted block completed normally', completed)
    h = w.clone_handle(c)
    T1 = x.s.snapshot()
    it1, it2, it0 = T1.lookup(kc1, rc1), T1.lookup(kc2, rc2), T1.lookup(kc0, rc0)
    x.add('C07,C06', 'every write that completed before the kill is fully present for the next process',
          And(it1.present, EqI(it1.c['value'].cls, INT), EqR(it1.c['value'].num, zv(v1)), it2.present, EqR(it2.c['mode'].num, 2)))
    old0 = x.T0.lookup(kc0, rc0)
    if exc is not None and how == 'block':
        x.add('C07,C06', 'the write of the aborted block is not', And(sx.EqB(it0.present, old0.present) if sx.isz(old0.present) or sx.isz(it0.present) else it0.present == old0.present, Implies(old0.present, same_cols(it0, old0, CACHE_COLS))))
    got = h.get(k2, default=None)
    x.add('C07,C01', 'and its file-backed value reads back', (got == b'file-value') if isinstance(got, bytes) else x.value_matches(got, it2))
    x.add('C07,C08', 'counters match and every row has its file', And(state.inv_table(T1), x.s.fs_inv(T1, allow_orphans=True)))
    return x.result()


# ------------------------------------------------------------------ FanoutCache.transact: one block over every shard

FPOOL = [0, 1, 2, 3]


@directive_aware
def ob_block_fanout(w, P):
    """`with fanout.transact():` on a real 2-shard FanoutCache (model databases): the block holds one transaction on
    every shard; it raises after a symbolic number of writes (keys chosen symbolically from a pool that spans both
    shards) or completes.  An aborted block leaves every shard unchanged; a completed one leaves all its writes;
    meanwhile (intrude=True) another FanoutCache on the directory cannot write to any shard: its set reports
    False and has no effect."""
    from symdc.state import Table, Nullable
    L = w.L
    shards = P.get('shards', 2)
    w.clock_fn = lambda: 0.0
    try:
        fc = L.fanout.FanoutCache(w.dir, shards=shards, cull_limit=0, eviction_policy='none')
        for sh in fc._shards:
            sh._con
        other = None
        if P.get('intrude'):
            other = L.fanout.FanoutCache(w.dir, shards=shards, cull_limit=0, eviction_policy='none')
            for sh in other._shards:
                sh._con
    finally:
        w.clock_fn = None
    per = {i: [] for i in range(shards)}
    for j, k in enumerate(FPOOL):
        si = (k % 0xFFFFFFFF) % shards
        alive = w.bool('e%d.present' % j)
        val = w.int('e%d.value' % j, -2 ** 40, 2 ** 40)
        per[si].append(dict(rowid=len(per[si]) + 1, key=k, raw=1, store_time=0, access_time=0, access_count=0, expire_time=Nullable(True, 0), tag=None, size=0, mode=1,
                            filename=None, value=val, _alive=alive, _tb=0))
    for si, specs in per.items():
        w.install_rows(fc._shards[si], specs)

    def snap():
        items, settings = [], None
        for sh in fc._shards:
            T = w.snapshot(sh)
            items.extend(T.items)
            settings = T.settings
        return Table(items, settings)
    T0 = snap()
    nops = P.get('nops', 2)
    keys = [w.int('key%d' % i, 0, len(FPOOL) - 1) for i in range(nops)]
    vals = [w.int('val%d' % i, -2 ** 40, 2 ** 40) for i in range(nops)]
    raise_at = w.int('raise_at', 0, nops)
    res = {}
    if other is not None:
        ik = w.int('ikey', 0, len(FPOOL) - 1)

        def intruder():
            w.tid, old = 2, w.tid
            try:
                res['ret'] = other.set(ik, 77)
                res['T'] = snap()
            finally:
                w.tid = old
        w.interfere_at = w.int('at', 0, P.get('max_events', 16))
        w.interfere_hook = intruder
    if P.get('crash'):
        # the process is killed at a symbolic event inside the sharded block: afterwards the block's writes are all there or none is
        import os
        if nops == 2 and int(keys[0]) == int(keys[1]):
            assume(False)  # two writes of one key: 'all' is the second value only -- the distinct-key case is the subject
        w.crash_at = w.int('crash_at', 0, P.get('max_events', 24))

        progress = {'writes': 0}

        def body():
            with fc.transact():
                for i in range(nops):
                    fc.set(keys[i], vals[i])
                    progress['writes'] += 1
        w.start_events()
        crashed = False
        try:
            if w.is_real:
                pid = os.fork()
                if pid == 0:
                    try:
                        w.stop_events()
                        w.pid += 1
                        for sh in fc._shards:
                            sh._con
                        w.in_child = True
                        w.start_events()
                        try:
                            body()
                        except BaseException:
                            pass
                    finally:
                        os._exit(0)
                _, status = os.waitpid(pid, 0)
                crashed = os.WIFSIGNALED(status)
            else:
                body()
        except env.Crash:
            crashed = True
        w.recover()
        w.stop_events()
        if crashed:
            flag('crashed')
        commits_done = sum(1 for (_, kind, d) in w.log if kind == 'sql' and d.startswith('after COMMIT'))
        if 'fanout-block-kill-between-commits' in P.get('exclude', []) and progress['writes'] == nops and 0 < commits_done < shards:
            # region of the known finding: the body had finished and the kill fell between the COMMITs of two shards (there is no commit
            # across shard databases)
            flag('nontrivial')
            flag('known_region')
            return [('C07,C06', 'excluded: known finding fanout-block-kill-between-commits', True)]
        T1 = snap()
        done = []
        for i in range(nops):
            it = T1.lookup(Cell(INT, int(keys[i])), Cell(INT, 1))
            done.append(And(it.present, EqI(it.c['value'].cls, INT), EqR(it.c['value'].num, zv(vals[i]))))
        same = []
        for it in T0.items:
            p = T1.lookup(it.c['key'], it.c['raw'])
            same.append(Implies(it.present, And(p.present, same_cols(p, it, CACHE_COLS))))
            same.append(Implies(Not(it.present), Not(p.present)))
        same.append(EqI(T0.count(), T1.count()))
        flag('nontrivial')
        return [('C07,C06', 'a sharded transaction block interrupted by a kill took effect on every shard or on none', Or(AndL(same), AndL(done))),
                ('C07,C08', 'counters match in every shard', AndL(state.inv_table(w.snapshot(sh)) for sh in fc._shards))]
    w.start_events()
    raised = False
    try:
        with fc.transact():
            res['T_in'] = True
            for i in range(nops):
                if raise_at == i:
                    raise Boom()
                fc.set(keys[i], vals[i])
    except Boom:
        raised = True
    w.stop_events()
    T1 = snap()
    cl = []
    log = [(i, d) for (i, kind, d) in w.log if kind == 'sql']
    begins = [i for i, d in log if d.startswith('BEGIN')]
    ends = [i for i, d in log if d.startswith(('COMMIT', 'ROLLBACK'))]
    expected = {}
    if not raised:
        for i in range(nops):
            expected[int(keys[i])] = vals[i]

    def state_as_expected(expected):
        conj = []
        for it in T0.items:
            k = it.c['key'].num
            k = int(str(sx.simp(k))) if sx.isz(k) else int(k)
            p = T1.lookup(it.c['key'], it.c['raw'])
            if k in expected:
                conj.append(And(p.present, EqI(p.c['value'].cls, INT), EqR(p.c['value'].num, zv(expected[k]))))
            else:
                conj.append(Implies(it.present, And(p.present, same_cols(p, it, CACHE_COLS))))
                conj.append(Implies(Not(it.present), Not(p.present)))
        return AndL(conj)
    if other is not None and 'ret' in res:
        flag('intruded')
        i_at = w.interfered_at[0]
        inside = len(begins) == shards and begins[-1] < i_at and (not ends or i_at <= ends[0])
        if inside:
            flag('intruded_inside')
            cl.append(('C06,C14', "while the block holds every shard another client's write is refused (reported False)", res['ret'] is False))
        if res['ret'] is True:
            # admitted outside the lock window: a legitimate effect, unless the block wrote the same key (order decides)
            if int(ik) in expected:
                expected = None
            else:
                expected[int(ik)] = 77
    final_ok = True if expected is None else state_as_expected(expected)
    cl.append(('C06', 'the block holds exactly one transaction per shard', len(begins) == shards and len(ends) == shards))
    cl.append(('C06', 'every shard transaction is closed and unowned when the block exits', all(sh._txn_id is None for sh in fc._shards)))
    if raised:
        flag('block_raised')
        cl.append(('C06', 'an aborted sharded block rolls every shard back', all(d.startswith('ROLLBACK') for i, d in log if i in ends)))
        cl.append(('C06,C08', 'an aborted sharded block leaves every shard exactly as before', final_ok))
    else:
        flag('block_committed')
        cl.append(('C06,C08', 'a completed sharded block leaves all of its writes and nothing else changed', final_ok))
    cl.append(('C06,C08', 'counters match in every shard', AndL(state.inv_table(w.snapshot(sh)) for sh in fc._shards)))
    flag('nontrivial')
    return cl


def ob_block_fanout_il(w, P):
    """two threads share one FanoutCache object and both run a transact() block, suspended part-way (Interleaver): the second
    block waits until the first has ended (it cannot join it), an abandoned block leaves nothing, a completed one everything"""
    L = w.L
    shards = 2
    w.clock_fn = lambda: 0.0
    try:
        fc = L.fanout.FanoutCache(w.dir, shards=shards, cull_limit=0, eviction_policy='none')
        for sh in fc._shards:
            sh._con
    finally:
        w.clock_fn = None
    w.preconnect(fc._shards[0], (w.pid, 2))
    w.preconnect(fc._shards[1], (w.pid, 2))
    box = {}

    class _Stop(Exception):
        pass

    def run_a():
        with fc.transact():
            fc.set(0, 10)
            fc.set(1, 11)
        box['A'] = True

    def run_b():
        try:
            with fc.transact():
                box['seen'] = (fc.get(0), fc.get(1))
                box['set'] = fc.set(2, 77)
                if P['b'] == 'abandon':
                    raise _Stop()
            box['B'] = True
        except _Stop:
            box['B'] = 'aborted'
    at = w.int('at', 0, P.get('max_events', 10))
    at2 = w.int('at2', 0, P.get('max_events', 10))
    w.start_events()
    il = w.interleave(run_a, run_b, at, at2, id_a=(w.pid, 1), id_b=(w.pid, 2))
    w.stop_events()
    if not il.b_started:
        return []
    cl = []
    cl.append(('C06,C05', 'both blocks ran to their end (%r)' % (box,), box.get('A') is True and box.get('B') in (True, 'aborted')))
    cl.append(('C06,C05', "a block sees the other block's writes all or none", box.get('seen') in ((None, None), (10, 11))))
    cl.append(('C06,C14', 'a write inside a block that owns every shard is not refused', box.get('set') is True))
    cl.append(('C06', "the first block's writes are there", fc.get(0) == 10 and fc.get(1) == 11))
    cl.append(('C06,C05', 'an abandoned block leaves nothing, a completed one its write', fc.get(2) == (None if P['b'] == 'abandon' else 77)))
    cl.append(('C06', 'no transaction is left open or owned', all(sh._txn_id is None for sh in fc._shards)))
    flag('nontrivial')
    return cl


def jobs(tier):
    out = []

    def add(func, tags, weight=1, must=(), **P):
        name = func[3:] + '.' + '.'.join('%s=%s' % (k, SHORT.get(v, v)) for k, v in sorted(P.items()))
        out.append(dict(id=name, func=func, params=P, tags=tags.split(','), weight=weight, must_reach=list(must),
                        functions=['core.Cache.transact', 'core.Cache._transact', 'core.Cache.set', 'core.Cache.delete', 'core.Cache.pop', 'core.Cache.incr',
                                   'core.Cache.touch', 'core.Cache.push', 'core.Cache.pull', 'core.Disk.store', 'core.Disk.remove']))
    Ns = [2] if tier == 'quick' else [2, 3]
    single = ['set', 'setf', 'add', 'delete', 'pop', 'incr', 'touch', 'push', 'pull']
    pairs = ['setf+delete', 'set+pop', 'setf+setf', 'delete+set', 'pop+setf', 'incr+delete', 'push+pull', 'pull+push']
    for N in Ns:
        for ops in single + pairs:
            add('ob_block', 'C06,C08' + (',C10' if 'pull' in ops or 'push' in ops else ''), weight=N * (2 if '+' in ops else 1), must=['block_raised', 'block_committed'], N=N, ops=ops, no_cull=True)
        for ops in ['setf+delete', 'pop+setf', 'set+set']:
            add('ob_block', 'C06,C08', weight=N * 2, must=['block_raised'], N=N, ops=ops, nested=True, no_cull=True)
        add('ob_block', 'C06,C08', weight=N * 3, N=N, ops='setf+pop', policy='least-recently-stored')
        add('ob_block', 'C06,C08,C05,C20', weight=N * 2, must=['block_raised'], N=N, ops='set+delete', exc='base', no_cull=True)
        add('ob_block', 'C06,C08', weight=N * 2, must=['block_raised', 'prelude'], N=N, ops='delete', prelude=True, no_cull=True)
        add('ob_block', 'C06,C08', weight=N * 2, must=['block_raised', 'prelude'], N=N, ops='set+pop', prelude=True, no_cull=True)
        add('ob_block', 'C06,C08,C05,C20', weight=N * 2, must=['block_raised'], N=N, ops='setf', exc='base', nested=True, no_cull=True)
        # the batch removals (clear / expire / evict) inside a block: their file removals wait for the outer COMMIT too
        for ops in ('clear+set', 'expire+set', 'evict+delete', 'setf+clear'):
            add('ob_block', 'C06,C08,C03', weight=N * 2, must=['block_raised', 'block_committed'], N=N, ops=ops, no_cull=True)
        for ops in ('setf+delete', 'pop+setf', 'set+set', 'delete+set', 'clear+set'):
            add('ob_block', 'C07,C06', weight=N * 30, must=['crashed'], N=N, ops=ops, crash=True, no_cull=True)
        for who in ('handle', 'thread'):
            add('ob_block_isolation', 'C06,C05', weight=N * 2, must=['intruded_inside'], N=N, who=who)
    for ops in ('setf+set', 'set+setf', 'setf+delete', 'setf+setf', 'pop+setf', 'setf+incr'):
        add('ob_block', 'C08,C06', weight=8, must=['fault_swallowed', 'block_committed'], N=1, ops=ops, fault_swallow=True, no_cull=True)
    # with culling on, a write has statements after its row is stored: a failure there leaves the row (and its file) in the block
    for ops in ('setf+set', 'setf+delete'):
        add('ob_block', 'C08,C06', weight=12, must=['fault_swallowed', 'block_committed'], N=1, ops=ops, fault_swallow=True, policy='least-recently-stored', max_events=30)
    for exc, how in (('base', 'block'), ('base', 'generator'), ('exc', 'block'), ('none', 'block')):
        add('ob_completed_then_kill', 'C07,C06', weight=6, must=['killed_after_completion'], N=1, exc=exc, how=how)
    for who in ('handle', 'thread'):
        add('ob_block_files_intruded', 'C06,C14,C08', weight=8, must=['refused_inside', 'block_raised', 'block_committed'], N=1, who=who)
    add('ob_block_fanout', 'C06,C08', weight=8, must=['block_raised', 'block_committed'], nops=2)
    add('ob_block_fanout', 'C06,C14,C20,C15', weight=20, must=['intruded_inside'], nops=1, intrude=True)
    add('ob_block_fanout', 'C07,C06', weight=30, must=['crashed'], nops=2, crash=True)
    for b in ('abandon', 'complete'):
        out.append(dict(id='block_fanout_il.%s' % b, func='ob_block_fanout_il', params=dict(b=b), tags=['C06', 'C05', 'C14'], weight=10, must_reach=['both_suspended'], twin=False,
                        functions=['fanout.FanoutCache.transact', 'core.Cache.transact', 'core.Cache._transact', 'fanout.FanoutCache.set', 'fanout.FanoutCache.get']))
    return out
