"""C06: transaction blocks -- all-or-nothing, isolated, nestable, thread-owned."""
from symdc import sx, spec, state, scn as scn_mod, sqlmodel, env
from symdc.sx import (And, Or, Not, Implies, EqI, NeI, EqR, NeR, LtR, LeR, AndL, OrL, Count, simp, isz)
from symdc.zpath import I, R, B, assume, flag
from symdc.sqlmodel import Cell, CNULL, NULL, INT, REAL, TEXT
from symdc.state import same_cols, CACHE_COLS
from symdc.spec import unchanged
from obligations.cache_ops import Ctx, zv, SHORT


class Boom(Exception):
    pass


class BoomBase(BaseException):
    """stands for KeyboardInterrupt / SystemExit / GeneratorExit leaving the block"""


def do_op(c, kind, k, v):
    if kind == 'set':
        return c.set(k, v)
    if kind == 'setf':
        return c.set(k, b'xyzw')
    if kind == 'add':
        return c.add(k, v)
    if kind == 'delete':
        return c.delete(k)
    if kind == 'pop':
        return c.pop(k)
    if kind == 'incr':
        try:
            return c.incr(k, 1)
        except TypeError:
            return None
    if kind == 'touch':
        return c.touch(k, 5)
    if kind == 'push':
        return c.push(v)
    if kind == 'pull':
        return c.pull()
    raise ValueError(kind)


def ob_block(w, P):
    """a block of 1-2 operations that raises after a symbolic number of them (or completes)"""
    x = Ctx(w, P, min_file_size=0 if ('setf' in P['ops'] or P.get('prelude')) else 2 ** 15)
    c = x.c
    if P.get('prelude'):
        # an ordinary committed write of a file-backed value through the same handle, before the block: state kept in
        # the object between calls must not leak into the next transaction
        kp = x.s.v_int('prelude_key', -2 ** 63, 2 ** 63 - 1)
        c.set(kp, b'prelude-value')
        x.T0 = x.s.snapshot()
        flag('prelude')
    ops = P['ops'].split('+')
    nested = P.get('nested', False)
    if 'push' in ops:
        from obligations.queue_ops import assume_margin
        assume_margin(x)
    keys = [x.key('key%d' % i) for i in range(len(ops))]
    vals = [x.s.v_int('val%d' % i, -2 ** 40, 2 ** 40) for i in range(len(ops))]
    raise_at = x.s.v_int('raise_at', 0, len(ops))  # == len(ops): the block completes
    x.begin()
    raised = False
    try:
        with c.transact():
            for i, kind in enumerate(ops):
                if raise_at == i:
                    raise (BoomBase() if P.get('exc') == 'base' else Boom())
                if nested:
                    with c.transact():
                        do_op(c, kind, keys[i][0], vals[i])
                else:
                    do_op(c, kind, keys[i][0], vals[i])
    except (Boom, BoomBase):
        raised = True
    x.end()
    log = [d for (_, kind, d) in w.log if kind == 'sql']
    begins = sum(1 for d in log if d.startswith('BEGIN'))
    ends = sum(1 for d in log if d.startswith(('COMMIT', 'ROLLBACK')))
    x.add('C06', 'only the outermost block begins and ends a database transaction', begins == 1 and ends == 1)
    x.add('C06', 'the transaction is closed and no longer owned when the block exits', c._txn_id is None)
    if raised:
        flag('block_raised')
        x.add('C06', 'an aborted block ends with ROLLBACK', any(d.startswith('ROLLBACK') for d in log))
        x.add('C06,C08', 'an aborted block leaves every item exactly as before', And(unchanged(x.T0, x.T1), spec.same_count(x.T0, x.T1)))
        x.add('C06,C08', 'after an aborted block the counters match', state.inv_table(x.T1))
        x.add('C06,C08', 'after an aborted block every item still has its value file and no file is left over', x.s.fs_inv(x.T1))
    else:
        flag('block_committed')
        x.add('C06', 'a completed block ends with COMMIT', any(d.startswith('COMMIT') for d in log))
        x.add('C06,C08', 'after a completed block the counters match', state.inv_table(x.T1))
        x.add('C06,C08', 'after a completed block rows and files agree', x.s.fs_inv(x.T1))
    return x.result()


def ob_block_isolation(w, P):
    """while a block is open, a write by another client (own handle) or by another thread using the same object
    does not take effect: it times out; a lock-free read by the other client sees the committed state"""
    x = Ctx(w, P, cull_limit=0)
    c = x.c
    core = w.L.core
    k0, kc0, rc0 = x.key('key0')
    v0 = x.s.v_int('val0', -2 ** 40, 2 ** 40)
    k1, kc1, rc1 = x.key('key1')
    same_object = P.get('who') == 'thread'
    other = c if same_object else w.clone_handle(c)
    at = x.s.v_int('at', 0, P.get('max_events', 12))
    res = {}

    def intruder():
        w.tid, old = 2, w.tid
        try:
            try:
                res['ret'] = other.set(k1, 77)
            except core.Timeout:
                res['ret'] = 'timeout'
            res['seen'] = other.get(k0, default=-7) if not same_object else None
        finally:
            w.tid = old
    w.interfere_at = at
    w.interfere_hook = intruder
    Tmid = {}
    x.begin()
    with c.transact():
        c.set(k0, v0)
        Tmid['in'] = True
        c.touch(k0, 3)
    x.end()
    if 'ret' in res:
        flag('intruded')
        inside = [e for e in w.log if e[1] == 'sql']
        # the intruder ran at an event boundary after BEGIN and before COMMIT iff the lock was held
        i_at = w.interfered_at[0]
        begin_i = next(i for i, kind, d in w.log if kind == 'sql' and d.startswith('BEGIN'))
        commit_i = next(i for i, kind, d in w.log if kind == 'sql' and d.startswith('COMMIT'))
        if begin_i < i_at <= commit_i:
            flag('intruded_inside')
            x.add('C06,C05', "another client's write inside the block's extent does not take effect (it times out)", res['ret'] == 'timeout')
            new1 = x.T1.lookup(kc1, rc1)
            old1 = x.T0.lookup(kc1, rc1)
            x.add('C06', 'the refused write left no trace', Or(sx.EqR(kc0.num, kc1.num), And(sx.EqB(new1.present, old1.present), Implies(old1.present, same_cols(new1, old1, CACHE_COLS)))))
            if not same_object:
                old0 = x.T0.lookup(kc0, rc0)
                seen = res['seen']
                # the other client's lock-free read sees the committed (pre-block) state of key0
                from obligations.cache_ops import is_num_like
                ok_seen = Or(And(Not(old0.present), is_num_like(seen) and True, EqR(zv(seen), -7)) if is_num_like(seen) else False,
                             And(old0.present, x.value_matches(seen, old0)),
                             And(old0.present, is_num_like(seen) and True, EqR(zv(seen), -7)) if is_num_like(seen) else False)
                x.add('C06', "a concurrent reader sees none of the block's uncommitted effects", ok_seen)
        else:
            x.add('C06', 'outside the block the other write simply succeeds', res['ret'] is True)
    x.add('C06,C08', 'counters match after the block', state.inv_table(x.T1))
    return x.result()


def jobs(tier):
    out = []

    def add(func, tags, weight=1, must=(), **P):
        name = func[3:] + '.' + '.'.join('%s=%s' % (k, SHORT.get(v, v)) for k, v in sorted(P.items()))
        out.append(dict(id=name, func=func, params=P, tags=tags.split(','), weight=weight, must_reach=list(must),
                        functions=['core.Cache.transact', 'core.Cache._transact', 'core.Cache.set', 'core.Cache.delete', 'core.Cache.pop', 'core.Cache.incr',
                                   'core.Cache.touch', 'core.Cache.push', 'core.Cache.pull', 'core.Disk.store', 'core.Disk.remove']))
    Ns = [2] if tier == 'quick' else [2, 3]
    single = ['set', 'setf', 'add', 'delete', 'pop', 'incr', 'touch', 'push', 'pull']
    pairs = ['setf+delete', 'set+pop', 'setf+setf', 'delete+set', 'pop+setf', 'incr+delete', 'push+pull', 'pull+push']
    for N in Ns:
        for ops in single + pairs:
            add('ob_block', 'C06,C08', weight=N * (2 if '+' in ops else 1), must=['block_raised', 'block_committed'], N=N, ops=ops, no_cull=True)
        for ops in ['setf+delete', 'pop+setf', 'set+set']:
            add('ob_block', 'C06,C08', weight=N * 2, must=['block_raised'], N=N, ops=ops, nested=True, no_cull=True)
        add('ob_block', 'C06,C08', weight=N * 3, N=N, ops='setf+pop', policy='least-recently-stored')
        add('ob_block', 'C06,C08', weight=N * 2, must=['block_raised'], N=N, ops='set+delete', exc='base', no_cull=True)
        add('ob_block', 'C06,C08', weight=N * 2, must=['block_raised', 'prelude'], N=N, ops='delete', prelude=True, no_cull=True)
        add('ob_block', 'C06,C08', weight=N * 2, must=['block_raised', 'prelude'], N=N, ops='set+pop', prelude=True, no_cull=True)
        add('ob_block', 'C06,C08', weight=N * 2, must=['block_raised'], N=N, ops='setf', exc='base', nested=True, no_cull=True)
        for who in ('handle', 'thread'):
            add('ob_block_isolation', 'C06,C05', weight=N * 2, must=['intruded_inside'], N=N, who=who)
    return out
