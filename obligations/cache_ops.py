"""Step obligations for the Cache API (single client): C03 / C04 / C08 / C09 clauses.

Each obligation: from *every* cache state satisfying Inv (<= N rows, all columns symbolic), for every
argument / clock reading / configuration, one call of the real method returns what the reference
semantics (DESIGN Appendix A.1) returns and leaves the state the reference leaves; Inv holds again.
Clause = (tags, label, formula); a property's check asserts the clauses tagged with it."""
import z3

from symdc import sx, spec, state, scn as scn_mod, sqlmodel, env
from symdc.sx import (And, Or, Not, Implies, IfB, IfI, IfR, EqI, NeI, EqR, NeR, LtR, LeR, LtI, LeI, AddR, SubR, SumI, SumR,
                      Count, AndL, OrL, simp, isz, zB, zR)
from symdc.zpath import I, R, B, assume, flag
from symdc.sqlmodel import Cell, CNULL, NULL, INT, REAL, TEXT, BLOB, cell_eq, cell_same, cell_lt, ite_cell
from symdc.state import Item, same_cols, CACHE_COLS, ALL_BUT_ROWID
from symdc.spec import dead, live, write_with_cull, unchanged, max_rowid, POLICY_COL

POLICIES = ['least-recently-stored', 'least-recently-used', 'least-frequently-used', 'none']


def zv(x):
    """python number / proxy -> Real-context value"""
    if isinstance(x, (I, R)):
        return sx._fold(x.z)
    if isinstance(x, B):
        return IfR(sx._fold(x.z), 1, 0)
    if isinstance(x, bool):
        return int(x)
    if isinstance(x, float):
        from fractions import Fraction
        return Fraction(x)
    return x


def is_int_like(x):
    return isinstance(x, (int, I)) and not isinstance(x, bool)


def is_num_like(x):
    return isinstance(x, (int, float, I, R)) and not isinstance(x, bool)


import pickle as _pickle
import pickletools as _pickletools

# keys of every representation: text, bytes with the same content, a number, a pickled tuple, and the bytes key that
# equals that tuple's serialized form (same `key` column, different `raw` flag), and a tuple that is == to the first one and
# hashes alike but is another key (float component): anything memoised per Python equality would alias the two
KEYPOOL = ['a', b'a', 7, (1, 2), _pickletools.optimize(_pickle.dumps((1, 2), protocol=_pickle.HIGHEST_PROTOCOL)), (1.0, 2)]


class Outcome(Exception):
    """the call ended the way a directive dictates (lock timeout / injected fault / kill): the directive's own
    clauses replace the functional specification"""

    def __init__(self, clauses):
        self.clauses = clauses


def directive_aware(fn):
    import functools

    @functools.wraps(fn)
    def wrapped(w, P):
        try:
            return fn(w, P)
        except Outcome as o:
            flag('nontrivial')
            return o.clauses
    return wrapped


def accepts_retry(fn):
    import inspect
    try:
        return 'retry' in inspect.signature(fn).parameters
    except (TypeError, ValueError):
        return False


class Ctx:
    """one scenario + the bookkeeping every obligation needs"""

    def __init__(self, w, P, **kw):
        self.w, self.P = w, P
        self.opkeys = []
        if P.get('crash') or P.get('no_cull'):
            kw.setdefault('cull_limit', 0 if P.get('no_cull') else None)
        kw.setdefault('statistics', P.get('statistics', False))
        kw.setdefault('kinds', P.get('kinds', scn_mod.KINDS))
        kw.setdefault('tags', P.get('tags', True))
        kw.setdefault('expire_pos', P.get('expire_pos', True))
        if P.get('keypool'):
            kw.setdefault('keypool', KEYPOOL)
        if P.get('cache_prelude'):
            kw.setdefault('min_file_size', 0)
        self.s = scn_mod.Scn(w, P['N'], policy=P.get('policy', 'least-recently-stored'), **kw)
        self.c = self.s.cache
        self.T0 = self.s.T0
        self.cl = []
        self.policy = P.get('policy', 'least-recently-stored')
        if P.get('cache_prelude'):
            # history: an ordinary committed write of a file-backed value through the same object comes first; whatever the object
            # remembers about it must not leak into the operation under test (e.g. be undone when that operation rolls back)
            lim = self.c.cull_limit
            self.c.cull_limit = 0
            self.c.set(-987654321, b'prelude-file-value')
            self.c.cull_limit = lim
            self.T0 = self.s.T0 = self.s.snapshot()
            flag('prelude')

    def key(self, name='key'):
        if self.P.get('keypool'):
            ki = int(self.s.v_int(name + '_i', 0, len(KEYPOOL) - 1))
            k = KEYPOOL[ki]
            dbk, raw = self.c._disk.put(k)
            kc, rc = self.w.bind(dbk), Cell(INT, int(raw))
            self.opkeys.append((kc, rc))
            flag('mixed_keys')
            return k, kc, rc
        k = self.s.v_int(name, -2 ** 63, 2 ** 63 - 1)
        self.opkeys.append((Cell(INT, k.z), Cell(INT, 1)))
        return k, Cell(INT, k.z), Cell(INT, 1)

    def opt_real(self, name):
        """None or a symbolic real (forks)"""
        n = self.s.v_bool(name + '_null')
        v = self.s.v_real(name)
        return None if n else v

    def opt_tag(self, name='tag'):
        n = self.s.v_bool(name + '_null')
        v = self.s.v_int(name, 0, 2)
        return None if n else v

    def begin(self):
        self.w.start_events()
        self.k0 = len(self.w.times)

    def end(self):
        self.w.stop_events()
        self.T1 = self.s.snapshot()
        self.times = self.w.times[self.k0:]
        return self.T1

    def call(self, fn, *a, expect=(), **k):
        """run fn; returns ('ok', value) or ('exc', exception) for expected exception types.
        Directives (P['busy'] / P['fault'] / P['crash']) are armed here; when the call ends the way the
        directive dictates, Outcome carries the directive's clauses."""
        P, w = self.P, self.w
        core = w.L.core
        if 'retry' in P and accepts_retry(fn):
            k['retry'] = P['retry']
        if P.get('busy'):
            self.arm_busy()
        if P.get('fault'):
            w.fault_at = self.s.v_int('fault_at', 0, P.get('max_events', 30))
        if P.get('crash'):
            w.crash_at = self.s.v_int('crash_at', 0, P.get('max_events', 30))
        self.begin()
        try:
            if P.get('crash') and w.is_real:
                r = self.real_crash_call(fn, a, k, expect)
            else:
                r = ('ok', fn(*a, **k))
        except core.Timeout as e:
            self.end()
            if P.get('fault'):
                flag('fault_escaped')
                raise Outcome(self.fault_clauses(e))
            if not P.get('busy'):
                raise
            if P.get('waits'):
                # this entry point always waits for the lock (it passes retry=True itself): it must not raise Timeout
                raise Outcome([('C14', 'an operation that is documented to wait for the lock does not raise Timeout', False)])
            raise Outcome(self.timeout_clauses(e))
        except env.Crash:
            w.recover()
            self.end()
            raise Outcome(self.crash_clauses())
        except expect as e:
            r = ('exc', e)
        except (w.sqlite3.OperationalError, OSError) as e:
            if P.get('fault') and 'injected' in str(e):
                self.end()
                flag('fault_escaped')
                raise Outcome(self.fault_clauses(e))
            raise
        self.end()
        if r[0] == 'ok' and isinstance(r[1], B):
            r = ('ok', bool(r[1]))  # a truth value computed from symbolic data (e.g. cursor.rowcount > 0): decided by a fork
        if P.get('crash') and r[0] == 'crashed':
            raise Outcome(self.crash_clauses())
        if P.get('busy') and not P.get('retry') and not P.get('waits') and self.busy_attempts[0] > 0 and self.P['busy'] not in ('later', 'always'):
            # the lock was busy on the first attempt and retry was not requested: the call must not have succeeded
            self.add('C14', 'a call that met a busy lock without retry raises Timeout', False)
        return r

    # ---- busy lock (C14)
    def arm_busy(self):
        w = self.w
        self.busy_attempts = [0]
        if self.P['busy'] == 'later':
            # the lock is free for the first j BEGIN attempts and busy from then on (another client took it mid-call)
            jj = self.s.v_int('busy_after', 1, self.P.get('busy_max', 3))

            def hook(con):
                self.busy_attempts[0] += 1
                b = bool(jj < self.busy_attempts[0])
                if b:
                    flag('lock_busy')
                return b
        elif self.P['busy'] == 'always':
            hook = lambda con: (self.busy_attempts.__setitem__(0, self.busy_attempts[0] + 1) or True)
        else:
            kmax = self.P.get('busy_max', 2)
            kk = self.s.v_int('busy_k', 1, kmax)

            def hook(con):
                self.busy_attempts[0] += 1
                flag('lock_busy')
                return bool(kk >= self.busy_attempts[0])
        w.set_busy_hook(self.c, hook)

    def timeout_clauses(self, e):
        flag('timeout_raised')
        if self.P['busy'] == 'later':
            # a bulk removal interrupted half-way: what it removed stays removed, the count is reported
            T0, T1 = self.T0, self.T1
            conj = []
            for it in T0.items:
                if it.present is False:
                    continue
                p = T1.lookup(it.c['key'], it.c['raw'])
                conj.append(Implies(it.present, Or(Not(p.present), same_cols(p, it, CACHE_COLS))))
            removed = sx.SubI(T0.count(), T1.count())
            return [('C14', 'Timeout only when retry was not requested', not self.P.get('retry')),
                    ('C14', 'an interrupted bulk removal reports exactly the number of items it had already removed',
                     And(len(e.args) == 1, EqR(zv(e.args[0]), removed) if len(e.args) == 1 and is_num_like(e.args[0]) else False)),
                    ('C14,C08', 'what was not removed is untouched', AndL(conj)),
                    ('C14,C08', 'counters and files are consistent after the interrupted bulk removal', And(state.inv_table(T1), self.s.fs_inv(T1)))]
        cl = [('C14', 'Timeout only when retry was not requested', not self.P.get('retry')),
              ('C14,C08', 'a timed-out call has no effect on the items', And(unchanged(self.T0, self.T1), spec.same_count(self.T0, self.T1))),
              ('C14,C08', 'a timed-out call leaves no value file behind and the counters intact',
               And(state.inv_table(self.T1), self.s.fs_inv(self.T1)))]
        if self.P.get('bulk'):
            cl.append(('C14', 'bulk removal reports the number already removed', len(e.args) == 1 and e.args[0] == 0))
        return cl

    # ---- injected fault (C08)
    def fault_clauses(self, e):
        return [('C08', 'after a failed call the counters match the rows', state.inv_table(self.T1)),
                ('C08', 'after a failed call every row has its file and no value file is unreferenced', self.s.fs_inv(self.T1))]

    # ---- kill (C07)
    def crash_clauses(self):
        flag('crashed')
        w = self.w
        Tr = self.T1
        T0 = self.T0
        cl = [('C07', 'after a kill the counters match the committed rows', state.inv_table(Tr)),
              ('C07', 'after a kill every committed row that names a file names a complete file of the recorded size', self.s.fs_inv(Tr, allow_orphans=True))]
        conj = []
        for it in Tr.items:
            if it.present is False:
                continue
            is_op = OrL(And(cell_eq(it.c['key'], kc), cell_eq(it.c['raw'], rc)) for kc, rc in self.opkeys)
            o = T0.lookup(it.c['key'], it.c['raw'])
            conj.append(Implies(And(it.present, Not(is_op), o.present), same_cols(o, it, CACHE_COLS)))
        cl.append(('C07', 'after a kill every previously committed item not addressed by the interrupted call is exactly as before (or gone)', AndL(conj)))
        # the directory stays usable: a fresh handle can read and write
        try:
            h = w.clone_handle(self.c)
            h.cull_limit = 0
            n = h.__len__()
            ok = And(h.set(-123456789, 1) is True, EqR(zv(h.get(-123456789)), 1), h.delete(-123456789) is True)
            cl.append(('C07', 'after a kill another process can still read and write', ok))
        except Exception as e2:
            cl.append(('C07', 'after a kill another process can still read and write (%s: %s)' % (type(e2).__name__, e2), False))
        return cl

    def real_crash_call(self, fn, a, k, expect):
        """real backend: run the call in a forked child that SIGKILLs itself at the recorded event"""
        import os
        w = self.w
        pid = os.fork()
        if pid == 0:
            try:
                w.stop_events()
                w.pid += 1  # the child is another process: diskcache reopens its connection (not part of the call)
                self.c._con
                w.in_child = True
                w.start_events()
                try:
                    fn(*a, **k)
                except BaseException:
                    pass
            finally:
                os._exit(0)
        os.waitpid(pid, 0)
        return ('crashed', None)

    def add(self, tags, label, f):
        self.cl.append((tags, label, f))

    def inv(self, tags='C03,C08'):
        self.add('C08', 'Inv: counters match rows', state.inv_table(self.T1))
        self.add('C08', 'Inv: files match rows', self.s.fs_inv(self.T1))

    def result(self):
        flag('nontrivial')
        return self.cl

    # -- value of an item as returned to the caller
    def value_matches(self, ret, item):
        s = self.s
        if isinstance(ret, env.SymContent):
            return And(EqR(item.c['mode'].num, 2), EqI(item.c['filename'].cls, TEXT), EqR(ret.cid, item.c['filename'].num))
        if isinstance(ret, (bytes, bytearray)):
            alts = []
            for i in range(s.n):
                fid = self.w.intern_text(scn_mod.fname(i))
                alts.append(And(EqR(item.c['mode'].num, 2), EqR(item.c['filename'].num, fid), bytes(ret) == scn_mod.content(i)))
            return OrL(alts)
        if is_num_like(ret):
            isint = is_int_like(ret)
            return And(EqR(item.c['mode'].num, 1), EqI(item.c['value'].cls, INT if isint else REAL), EqR(item.c['value'].num, zv(ret)))
        return False

    def volume_bytes(self, k=0):
        pcs = self.s.pcs
        if len(pcs) > k:
            flag('volume_read')
            return sx.MulR(4096, zv(pcs[k]))
        return 0


def written_int(now, value, expire_cell, tag_cell, kc, rc):
    return dict(key=kc, raw=rc, store_time=Cell(REAL, now), access_time=Cell(REAL, now), access_count=Cell(INT, 0),
                expire_time=expire_cell, tag=tag_cell, size=Cell(INT, 0), mode=Cell(INT, 1), filename=CNULL,
                value=Cell(INT, zv(value)))


def exp_cell(now, expire):
    return CNULL if expire is None else Cell(REAL, AddR(now, zv(expire)))


def tag_cell(tag):
    return CNULL if tag is None else Cell(INT, zv(tag))


def expiry_case(x, old, now, ret_live):
    """C04: the code treated the item as live (ret_live=True) or as not live; ties (now == expire) are free"""
    strictly_live = And(old.present, live(old, now))
    strictly_dead = And(old.present, dead(old, now))
    if ret_live:
        return And(old.present, Not(strictly_dead))
    return Or(Not(old.present), Not(strictly_live))


# ------------------------------------------------------------------ writes

@directive_aware
def ob_set(w, P):
    x = Ctx(w, P)
    c = x.c
    k, kc, rc = x.key()
    val = x.s.v_int('val', -2 ** 40, 2 ** 40)
    expire = x.opt_real('exp')
    tag = x.opt_tag() if P.get('tags', True) else None
    if P.get('via') == 'setitem':
        expire, tag = None, None
        st, ret = x.call(c.__setitem__, k, val)
        ret = True if ret is None else ret
    else:
        st, ret = x.call(c.set, k, val, expire=expire, tag=tag)
    now = x.times[0]
    wr = written_int(now, val, exp_cell(now, expire), tag_cell(tag), kc, rc)
    for lab, f in write_with_cull(x.T0, x.T1, kc, rc, wr, now, x.policy, zv(c.cull_limit), zv(c.size_limit), x.volume_bytes()):
        x.add(clause_tags(lab), lab, f)
    x.add('C03', 'set returns True', ret is True)
    x.inv()
    return x.result()


def clause_tags(lab):
    if lab in ('at most cull_limit removed',):
        return 'C03,C04,C09'
    if lab in ('eviction only at the size limit', 'policy order', 'policy none never evicts', 'dead items go first'):
        return 'C03,C09'
    if lab == 'other item unchanged or removed':
        return 'C03,C04'
    if lab.startswith('written item'):
        return 'C03,C09'
    return 'C03'


@directive_aware
def ob_set_file(w, P):
    """set of a value stored in a file (bytes >= disk_min_file_size) over inline and file-backed rows"""
    x = Ctx(w, P, min_file_size=0)
    c = x.c
    k, kc, rc = x.key()
    payload = b'xyzw'
    expire = x.opt_real('exp')
    st, ret = x.call(c.set, k, payload, expire=expire)
    now = x.times[0]
    new = x.T1.lookup(kc, rc)
    newfiles = [(rel, ex, size, comp) for rel, ex, size, comp in w.val_files(c) if not scn_mod.is_prefile(rel)]
    wr = dict(key=kc, raw=rc, store_time=Cell(REAL, now), access_time=Cell(REAL, now), access_count=Cell(INT, 0),
              expire_time=exp_cell(now, expire), tag=CNULL, size=Cell(INT, len(payload)), mode=Cell(INT, 2),
              filename=new.c['filename'], value=CNULL)
    for lab, f in write_with_cull(x.T0, x.T1, kc, rc, wr, now, x.policy, zv(c.cull_limit), zv(c.size_limit), x.volume_bytes()):
        x.add(clause_tags(lab), lab, f)
    # the new row (if it survived the cull) names the one new file, which holds the payload
    x.add('C03,C08', 'at most one new value file', len([1 for rel, ex, size, comp in newfiles if ex is not False]) <= 1)
    for rel, ex, size, comp in newfiles:
        fid = w.intern_text(rel)
        x.add('C01,C03,FAULT', 'new file holds the payload', Implies(ex, And(w.file_content(c, rel) == payload, EqI(size, len(payload)) if not isz(size) else size == len(payload))))
        x.add('C03,C08', 'new row names the new file', Implies(And(ex, new.present), And(EqI(new.c['filename'].cls, TEXT), EqR(new.c['filename'].num, fid))))
    x.add('C03', 'set returns True', ret is True)
    x.inv()
    return x.result()


@directive_aware
def ob_add(w, P):
    x = Ctx(w, P)
    c = x.c
    k, kc, rc = x.key()
    val = x.s.v_int('val', -2 ** 40, 2 ** 40)
    expire = x.opt_real('exp')
    tag = x.opt_tag() if P.get('tags', True) else None
    st, ret = x.call(c.add, k, val, expire=expire, tag=tag)
    now = x.times[0]
    old = x.T0.lookup(kc, rc)
    if ret is False:
        flag('add_refused')
        x.add('C03,C04', 'add refused only for a live item', expiry_case(x, old, now, True))
        x.add('C03', 'refused add changes nothing', unchanged(x.T0, x.T1))
        x.add('C03', 'no spurious rows', spec.same_count(x.T0, x.T1))
    else:
        flag('add_wrote')
        x.add('C03', 'add returns True', ret is True)
        x.add('C03,C04', 'add writes only over an absent or expired item', expiry_case(x, old, now, False))
        wr = written_int(now, val, exp_cell(now, expire), tag_cell(tag), kc, rc)
        for lab, f in write_with_cull(x.T0, x.T1, kc, rc, wr, now, x.policy, zv(c.cull_limit), zv(c.size_limit), x.volume_bytes()):
            x.add(clause_tags(lab), lab, f)
    x.inv()
    return x.result()


@directive_aware
def ob_add_file(w, P):
    """add of a file-backed value: a refused add must not leave its value file behind (C08)"""
    x = Ctx(w, P, min_file_size=0)
    c = x.c
    k, kc, rc = x.key()
    st, ret = x.call(c.add, k, b'xyzw')
    now = x.times[0]
    old = x.T0.lookup(kc, rc)
    if ret is False:
        flag('add_refused')
        x.add('C03,C04', 'add refused only for a live item', expiry_case(x, old, now, True))
        x.add('C03', 'refused add changes nothing', unchanged(x.T0, x.T1))
    else:
        x.add('C03,C04', 'add writes only over an absent or expired item', expiry_case(x, old, now, False))
    x.inv()
    return x.result()


@directive_aware
def ob_touch(w, P):
    x = Ctx(w, P)
    c = x.c
    k, kc, rc = x.key()
    expire = x.opt_real('exp')
    st, ret = x.call(c.touch, k, expire=expire)
    now = x.times[0]
    old = x.T0.lookup(kc, rc)
    new = x.T1.lookup(kc, rc)
    if ret is True:
        flag('touched')
        x.add('C03,C04', 'touch succeeds only on a live item', expiry_case(x, old, now, True))
        keep = [cname for cname in CACHE_COLS if cname != 'expire_time']
        x.add('C03', 'touch sets the expiry and nothing else', And(new.present, same_cols(new, old, keep), cell_same(new.c['expire_time'], exp_cell(now, expire))))
        x.add('C03', 'other items unchanged', unchanged(x.T0, x.T1, except_key=(kc, rc)))
    else:
        x.add('C03', 'touch returns False', ret is False)
        x.add('C03,C04', 'touch fails only on an absent or expired item', expiry_case(x, old, now, False))
        x.add('C03,C04', 'failed touch changes nothing (no revival)', unchanged(x.T0, x.T1))
    x.add('C03', 'no spurious rows', spec.same_count(x.T0, x.T1))
    x.inv()
    return x.result()


@directive_aware
def ob_incr(w, P):
    wide = P.get('wide')  # stored values, delta and default over the whole signed 64-bit range: results may leave it
    x = Ctx(w, P, **({'value_bits': 63} if wide else {}))
    c = x.c
    k, kc, rc = x.key()
    bits = 63 if wide else 40
    delta = x.s.v_int('delta', -2 ** bits, 2 ** bits)
    dnull = x.s.v_bool('default_null')
    dv = x.s.v_int('default', -2 ** 40, 2 ** 40)
    default = None if dnull else dv
    if wide:
        # a *new* counter beyond 64 bits is legitimately stored as a pickle (outside this obligation): keep default + delta inside
        sgn = -1 if P.get('decr') else 1
        assume(sx.zB(And(LeR(-2 ** 63, AddR(zv(dv), sx.MulR(sgn, zv(delta)))), LeR(AddR(zv(dv), sx.MulR(sgn, zv(delta))), 2 ** 63 - 1))))
    fn = c.decr if P.get('decr') else c.incr
    st, ret = x.call(fn, k, delta, default, expect=(KeyError, TypeError, OverflowError))
    now = x.times[0]
    old = x.T0.lookup(kc, rc)
    new = x.T1.lookup(kc, rc)
    d = SubR(0, zv(delta)) if P.get('decr') else zv(delta)
    if st == 'exc' and isinstance(ret, OverflowError):
        # a result outside the signed 64-bit range cannot be stored: rejected with an exception, nothing altered (C01)
        flag('incr_overflow')
        base = sx.IfR(And(old.present, Not(dead(old, now))), old.c['value'].num, zv(default) if default is not None else 0)
        res_ = AddR(base, d)
        x.add('C03,C01', 'OverflowError only when the result leaves the signed 64-bit range', Or(LtR(res_, -2 ** 63), LtR(2 ** 63 - 1, res_)))
        x.add('C03,C01', 'a rejected incr changes nothing', And(unchanged(x.T0, x.T1), spec.same_count(x.T0, x.T1)))
        x.inv()
        return x.result()
    if st == 'exc' and isinstance(ret, TypeError):
        # documented precondition: incr on a live item requires a numeric inline value
        x.add('C03', 'TypeError only for a live non-numeric value', And(old.present, Not(dead(old, now)), NeR(old.c['mode'].num, 1)))
        return x.result()
    if st == 'exc':
        flag('incr_keyerror')
        x.add('C03,C04', 'KeyError only when absent/expired and default is None', And(default is None, expiry_case(x, old, now, False)))
        x.add('C03', 'failed incr changes nothing', unchanged(x.T0, x.T1))
        x.add('C03', 'no spurious rows', spec.same_count(x.T0, x.T1))
    else:
        was_live = And(old.present, Not(dead(old, now)))
        was_dead = Or(Not(old.present), Not(live(old, now)))
        # which case did the code take?  decide by the returned value (both may be consistent at ties)
        upd = And(was_live, EqR(old.c['mode'].num, 1), EqI(old.c['value'].cls, INT), EqR(zv(ret), AddR(old.c['value'].num, d)))
        keep = [cn for cn in CACHE_COLS if cn not in ('value', 'store_time', 'access_time', 'access_count')]
        pol = x.policy
        upd_state = And(new.present, same_cols(new, old, keep), EqR(new.c['value'].num, zv(ret)), EqI(new.c['value'].cls, INT),
                        EqR(new.c['store_time'].num, now),
                        EqR(new.c['access_time'].num, now) if pol == 'least-recently-used' else cell_same(new.c['access_time'], old.c['access_time']),
                        EqR(new.c['access_count'].num, AddR(old.c['access_count'].num, 1)) if pol == 'least-frequently-used' else cell_same(new.c['access_count'], old.c['access_count']),
                        unchanged(x.T0, x.T1, except_key=(kc, rc)), spec.same_count(x.T0, x.T1))
        caseB = And(upd, upd_state)
        if default is not None:
            wr = written_int(now, 0, CNULL, CNULL, kc, rc)
            wr['value'] = Cell(INT, AddR(zv(default), d))
            wcl = write_with_cull(x.T0, x.T1, kc, rc, wr, now, pol, zv(c.cull_limit), zv(c.size_limit), x.volume_bytes())
            caseA = And(was_dead, EqR(zv(ret), AddR(zv(default), d)), AndL(f for _, f in wcl))
        else:
            caseA = False
        x.add('C03,C04,C09', 'incr: live item incremented in place (policy metadata refreshed) or absent/expired item re-created', Or(caseA, caseB))
    x.inv()
    return x.result()


@directive_aware
def ob_put_pairs(w, P):
    """two keys of the mixed-representation pool serialized one after the other through the same Disk object (whatever it
    remembers between calls): distinct keys get distinct (key, raw) database keys, and each comes back equal and of the
    same type -- in particular for keys that are == and hash alike but are not the same key, e.g. (1, 2) and (1.0, 2)"""
    x = Ctx(w, P, sym_cfg=False)
    d = x.c._disk
    i = int(x.s.v_int('i', 0, len(KEYPOOL) - 1))
    j = int(x.s.v_int('j', 0, len(KEYPOOL) - 1))
    ka, kb = KEYPOOL[i], KEYPOOL[j]
    a = d.put(ka)
    b = d.put(kb)

    def norm(t):
        return (bytes(t[0]) if isinstance(t[0], (bytes, bytearray, memoryview)) else t[0], bool(t[1]))
    x.add('C02', 'distinct keys never share a database key, however the Disk object was used before', i == j or norm(a) != norm(b) or (type(norm(a)[0]) is not type(norm(b)[0])))
    ra, rb = d.get(a[0], a[1]), d.get(b[0], b[1])

    def same(u, v):
        return type(u) is type(v) and u == v and repr(u) == repr(v)
    x.add('C02', 'each key comes back equal and of the same type (component types included)', same(ra, ka) and same(rb, kb))
    return x.result()


# ------------------------------------------------------------------ reads

@directive_aware
def ob_get(w, P):
    x = Ctx(w, P)
    c = x.c
    k, kc, rc = x.key()
    want_exp, want_tag = P.get('expire_time', False), P.get('tag', False)
    h0 = x.T0.settings['hits'].num
    m0 = x.T0.settings['misses'].num
    st, ret = x.call(c.get, k, default=-7, expire_time=want_exp, tag=want_tag)
    now = x.times[0]
    old = x.T0.lookup(kc, rc)
    new = x.T1.lookup(kc, rc)
    if want_exp and want_tag:
        val, rexp, rtag = ret
    elif want_exp:
        (val, rexp), rtag = ret, None
    elif want_tag:
        (val, rtag), rexp = ret, None
    else:
        val, rexp, rtag = ret, None, None
    stats_on = c.statistics
    stats_z = sx._fold(stats_on.z != 0) if isinstance(stats_on, I) else bool(stats_on)
    miss = isinstance(val, int) and not isinstance(val, bool) and val == -7 and (not want_exp or rexp is None) and (not want_tag or rtag is None)
    hit_formula = And(old.present, Not(dead(old, now)), x.value_matches(val, old))
    if want_exp:
        hit_formula = And(hit_formula, cell_same(w.bind(rexp), old.c['expire_time']))
    if want_tag:
        hit_formula = And(hit_formula, cell_same(w.bind(rtag), old.c['tag']))
    miss_formula = And(miss, Or(Not(old.present), Not(live(old, now))))
    x.add('C03,C04,C01', 'get returns the live value (with expiry/tag as requested) or the default', Or(hit_formula, miss_formula))
    # state
    hits1, miss1 = x.T1.settings['hits'].num, x.T1.settings['misses'].num
    keep = [cn for cn in CACHE_COLS if cn not in ('access_time', 'access_count')]
    pol = x.policy
    t_upd = x.times[-1]
    hit_state = And(new.present, same_cols(new, old, keep),
                    And(LeR(now, new.c['access_time'].num), LeR(new.c['access_time'].num, t_upd)) if pol == 'least-recently-used' else cell_same(new.c['access_time'], old.c['access_time']),
                    EqR(new.c['access_count'].num, AddR(old.c['access_count'].num, 1)) if pol == 'least-frequently-used' else cell_same(new.c['access_count'], old.c['access_count']),
                    EqR(hits1, IfR(stats_z, AddR(h0, 1), h0)), EqR(miss1, m0))
    miss_state = And(unchanged(x.T0, x.T1), EqR(miss1, IfR(stats_z, AddR(m0, 1), m0)), EqR(hits1, h0))
    x.add('C03,C09', 'get: statistics and recency/frequency metadata updated exactly as specified',
          And(Or(And(hit_formula, hit_state), And(miss_formula, miss_state)), unchanged(x.T0, x.T1, except_key=(kc, rc)), spec.same_count(x.T0, x.T1)))
    x.inv()
    return x.result()


@directive_aware
def ob_getitem(w, P):
    x = Ctx(w, P)
    c = x.c
    k, kc, rc = x.key()
    fn = {'getitem': c.__getitem__, 'read': c.read}[P.get('via', 'getitem')]
    st, ret = x.call(fn, k, expect=(KeyError,))
    now = x.times[0]
    old = x.T0.lookup(kc, rc)
    if st == 'exc':
        x.add('C03,C04', 'KeyError only for an absent or expired item', Or(Not(old.present), Not(live(old, now))))
    else:
        if P.get('via') == 'read':
            # read() returns a handle for file-backed values, the value itself for inline ones
            if hasattr(ret, 'read'):
                ret = ret.read()
        x.add('C03,C04,C01', 'lookup returns the live value', And(old.present, Not(dead(old, now)), x.value_matches(ret, old)))
    x.inv()
    return x.result()


@directive_aware
def ob_contains(w, P):
    x = Ctx(w, P)
    c = x.c
    k, kc, rc = x.key()
    st, ret = x.call(c.__contains__, k)
    now = x.times[0]
    old = x.T0.lookup(kc, rc)
    x.add('C03,C04', 'membership == present and not expired', expiry_case(x, old, now, True) if ret else expiry_case(x, old, now, False))
    x.add('C03', 'membership returns a bool', isinstance(ret, bool))
    x.add('C03', 'membership changes nothing', And(unchanged(x.T0, x.T1), spec.same_count(x.T0, x.T1)))
    x.inv()
    return x.result()


# ------------------------------------------------------------------ removals

def removed_exactly(T0, T1, pred):
    """items satisfying pred are gone, all others are unchanged, nothing appears"""
    conj = []
    n_removed = []
    for it in T0.items:
        if it.present is False:
            continue
        p = T1.lookup(it.c['key'], it.c['raw'])
        rm = pred(it)
        conj.append(Implies(And(it.present, rm), Not(p.present)))
        conj.append(Implies(And(it.present, Not(rm)), And(p.present, same_cols(p, it, CACHE_COLS))))
        n_removed.append(And(it.present, rm))
    conj.append(EqI(T1.count(), sx.SubI(T0.count(), Count(n_removed))))
    return AndL(conj), Count(n_removed)


@directive_aware
def ob_pop(w, P):
    x = Ctx(w, P)
    c = x.c
    k, kc, rc = x.key()
    want_exp, want_tag = P.get('expire_time', False), P.get('tag', False)
    st, ret = x.call(c.pop, k, default=-7, expire_time=want_exp, tag=want_tag)
    now = x.times[0]
    old = x.T0.lookup(kc, rc)
    if want_exp and want_tag:
        val, rexp, rtag = ret
    elif want_exp:
        (val, rexp), rtag = ret, None
    elif want_tag:
        (val, rtag), rexp = ret, None
    else:
        val, rexp, rtag = ret, None, None
    miss = isinstance(val, int) and not isinstance(val, bool) and val == -7 and rexp is None and rtag is None
    hit = And(old.present, Not(dead(old, now)), x.value_matches(val, old))
    if want_exp:
        hit = And(hit, cell_same(w.bind(rexp), old.c['expire_time']))
    if want_tag:
        hit = And(hit, cell_same(w.bind(rtag), old.c['tag']))
    hit_state, _ = removed_exactly(x.T0, x.T1, lambda it: And(cell_eq(it.c['key'], kc), cell_eq(it.c['raw'], rc)))
    miss_f = And(miss, Or(Not(old.present), Not(live(old, now))), unchanged(x.T0, x.T1), spec.same_count(x.T0, x.T1))
    x.add('C03,C04,C01', 'pop returns and removes the live item, or returns the default and changes nothing', Or(And(hit, hit_state), miss_f))
    x.inv()
    return x.result()


@directive_aware
def ob_delete(w, P):
    x = Ctx(w, P)
    c = x.c
    k, kc, rc = x.key()
    if P.get('via') == 'delitem':
        st, ret = x.call(c.__delitem__, k, expect=(KeyError,))
        ok = (st == 'ok')
    else:
        st, ret = x.call(c.delete, k)
        ok = ret is True
        x.add('C03', 'delete returns a bool', isinstance(ret, bool))
    now = x.times[0]
    old = x.T0.lookup(kc, rc)
    if ok:
        f, _ = removed_exactly(x.T0, x.T1, lambda it: And(cell_eq(it.c['key'], kc), cell_eq(it.c['raw'], rc)))
        x.add('C03,C04', 'delete succeeds only on a live item and removes exactly it', And(expiry_case(x, old, now, True), f))
    else:
        x.add('C03,C04', 'delete fails only on an absent or expired item and changes nothing',
              And(expiry_case(x, old, now, False), unchanged(x.T0, x.T1), spec.same_count(x.T0, x.T1)))
    x.inv()
    return x.result()


@directive_aware
def ob_clear(w, P):
    x = Ctx(w, P, sym_cfg=False)
    c = x.c
    st, ret = x.call(c.clear)
    x.add('C03', 'clear returns the number of items', EqI(zv(ret), x.T0.count()))
    x.add('C03', 'clear removes everything', EqI(x.T1.count(), 0))
    x.inv()
    return x.result()


@directive_aware
def ob_evict(w, P):
    x = Ctx(w, P, sym_cfg=False)
    c = x.c
    tag = x.opt_tag('etag')
    st, ret = x.call(c.evict, tag)
    tc = tag_cell(tag)
    f, n = removed_exactly(x.T0, x.T1, lambda it: And(NeI(tc.cls, NULL), NeI(it.c['tag'].cls, NULL), cell_eq(it.c['tag'], tc)))
    x.add('C03', 'evict removes exactly the items carrying the tag', f)
    x.add('C03', 'evict returns their number', EqI(zv(ret), n))
    x.inv()
    return x.result()


@directive_aware
def ob_expire(w, P):
    x = Ctx(w, P, sym_cfg=False, expire_pos=P.get('expire_pos', True))
    c = x.c
    if P.get('explicit_now', True):
        nowv = x.s.v_real('now_arg', 1, None)
        st, ret = x.call(c.expire, nowv)
        now = zv(nowv)
    else:
        st, ret = x.call(c.expire)
        now = x.times[0]
    f, n = removed_exactly(x.T0, x.T1, lambda it: dead(it, now))
    x.add('C03,C04', 'expire removes exactly the items whose expiry time has passed', f)
    x.add('C03,C04', 'expire returns their number', EqI(zv(ret), n))
    x.inv()
    return x.result()


@directive_aware
def ob_cull(w, P):
    """explicit cull(): expired first, then policy victims until volume <= size_limit or empty; returns the count"""
    x = Ctx(w, P)
    c = x.c
    st, ret = x.call(c.cull)
    now = x.times[0]
    T0, T1 = x.T0, x.T1
    pol = x.policy
    pcol = POLICY_COL[pol]
    removed, deads = [], []
    conj = []
    for it in T0.items:
        if it.present is False:
            continue
        p = T1.lookup(it.c['key'], it.c['raw'])
        conj.append(Implies(it.present, Or(Not(p.present), same_cols(p, it, CACHE_COLS))))
        removed.append(And(it.present, Not(p.present)))
        deads.append(And(it.present, dead(it, now)))
    items = [it for it in T0.items if it.present is not False]
    x.add('C09', 'cull: survivors unchanged', AndL(conj))
    x.add('C09,C04', 'cull removes every expired item', AndL(Implies(d, r) for d, r in zip(deads, removed)))
    x.add('C09', 'cull returns the number of items it removed', EqI(zv(ret), Count(removed)))
    x.add('C09', 'no spurious rows', EqI(T1.count(), sx.SubI(T0.count(), Count(removed))))
    pol_victim = [And(r, Not(d)) for r, d in zip(removed, deads)]
    if pcol is None:
        x.add('C09', "policy 'none' never evicts", Not(OrL(pol_victim)))
    else:
        order = []
        for v, pv in zip(items, pol_victim):
            for s_, rs in zip(items, removed):
                if v is s_:
                    continue
                order.append(Implies(And(pv, s_.present, Not(rs)), LeR(v.c[pcol].num, s_.c[pcol].num)))
        x.add('C09', 'cull evicts in policy order', AndL(order))
        # stops only when volume <= size_limit or empty: the last volume read decided the stop
        pcs = x.s.pcs
        if pcs:
            flag('volume_read')
            last_vol = AddR(sx.MulR(4096, zv(pcs[-1])), T1.total_size())
            x.add('C09', 'cull stops only at or below the size limit, or when empty', Or(LeR(last_vol, zv(c.size_limit)), EqI(T1.count(), 0)))
            if len(pcs) >= 1:
                # eviction by policy happened only while the volume exceeded the limit: first read
                first_vol = AddR(sx.MulR(4096, zv(pcs[0])), SumR(IfR(And(it.present, Not(d)), it.c['size'].num, 0) for it, d in zip(items, deads)))
                x.add('C09', 'policy eviction only above the size limit', Implies(OrL(pol_victim), LtR(zv(c.size_limit), first_vol)))
    x.inv()
    return x.result()


# ------------------------------------------------------------------ observers

def nth_item(T, keyf, p, reverse=False):
    """the item at position p when present items are ordered by keyf(item)->(lt(a,b)) ; returns (exists, item)"""
    items = [it for it in T.items if it.present is not False]
    res = Item(False, {c: CNULL for c in CACHE_COLS})
    for it in items:
        rk = Count(And(o.present, (keyf(it, o) if reverse else keyf(o, it))) for o in items if o is not it)
        c = simp(And(it.present, EqI(rk, p)))
        if c is False:
            continue
        res = Item(Or(res.present, c), {k: ite_cell(c, it.c[k], res.c[k]) for k in CACHE_COLS})
    return res


def by_rowid(a, b):
    return LtR(a.c['rowid'].num, b.c['rowid'].num)


def by_key(a, b):
    return Or(cell_lt(a.c['key'], b.c['key']), And(cell_eq(a.c['key'], b.c['key']), LtR(a.c['raw'].num, b.c['raw'].num)))


@directive_aware
def ob_len(w, P):
    x = Ctx(w, P, sym_cfg=False)
    st, ret = x.call(x.c.__len__)
    x.add('C03,C08', 'len == number of stored items', EqI(zv(ret), x.T0.count()))
    x.add('C03', 'len changes nothing', unchanged(x.T0, x.T1))
    return x.result()


@directive_aware
def ob_iter(w, P):
    x = Ctx(w, P, sym_cfg=False)
    c = x.c
    how = P.get('how', 'iter')
    fn = {'iter': lambda: list(iter(c)), 'reversed': lambda: list(reversed(c)), 'iterkeys': lambda: list(c.iterkeys()),
          'iterkeys_rev': lambda: list(c.iterkeys(reverse=True))}[how]
    st, ret = x.call(fn)
    order = by_rowid if how in ('iter', 'reversed') else by_key
    rev = how in ('reversed', 'iterkeys_rev')
    x.add('C03', 'iteration yields every stored key once', EqI(len(ret), x.T0.count()))
    for p, k in enumerate(ret):
        it = nth_item(x.T0, order, p, reverse=rev)
        dbk, rawk = c._disk.put(k) if P.get('keypool') else (k, True)
        same_type = True
        if P.get('keypool'):
            if isinstance(k, I):
                same_type = OrL(EqR(zv(k), pk) for pk in KEYPOOL if type(pk) is int)
            else:
                same_type = any(type(k) is type(pk) and k == pk for pk in KEYPOOL)
        x.add('C03,C02', 'iteration order and key identity (position %d)' % p, And(it.present, cell_same(w.bind(dbk), it.c['key']), EqR(it.c['raw'].num, int(rawk)), same_type))
    x.add('C03', 'iteration changes nothing', unchanged(x.T0, x.T1))
    return x.result()


@directive_aware
def ob_peekitem(w, P):
    x = Ctx(w, P, sym_cfg=False)
    c = x.c
    last = P.get('last', True)
    st, ret = x.call(c.peekitem, last, expect=(KeyError,))
    now = x.times[0] if x.times else None
    T0, T1 = x.T0, x.T1
    items = [it for it in T0.items if it.present is not False]
    if st == 'exc':
        # every item was expired (and is now removed) or the cache was empty
        tl = x.times[-1] if x.times else None
        x.add('C03,C04', 'KeyError only if no unexpired item exists', AndL(Implies(it.present, Not(live(it, tl)) if tl is not None else False) for it in items))
        x.add('C03', 'everything met on the way was removed', EqI(T1.count(), 0))
    else:
        (k, v) = ret
        kc_ = w.bind(k)
        tgt = T0.lookup(kc_, Cell(INT, 1))
        # peekitem reads the clock only when the item it looks at has an expiry time
        tfirst = x.times[0] if x.times else None
        tlast = x.times[-1] if x.times else None
        notdead = Not(dead(tgt, tfirst)) if tfirst is not None else EqI(tgt.c['expire_time'].cls, NULL)
        x.add('C03,C04,C01', 'peekitem returns an unexpired stored item', And(tgt.present, notdead, x.value_matches(v, tgt)))
        # every item beyond the returned one (in rowid order, on the peeked side) is expired and removed; others untouched
        conj = []
        for it in items:
            beyond = LtR(tgt.c['rowid'].num, it.c['rowid'].num) if last else LtR(it.c['rowid'].num, tgt.c['rowid'].num)
            p = T1.lookup(it.c['key'], it.c['raw'])
            conj.append(Implies(And(it.present, beyond), And(Not(live(it, tlast)), Not(p.present)) if tlast is not None else False))
            conj.append(Implies(And(it.present, Not(beyond)), And(p.present, same_cols(p, it, CACHE_COLS))))
        x.add('C03,C04', 'peekitem skips (and removes) only expired items', AndL(conj))
    x.inv()
    return x.result()


@directive_aware
def ob_stats(w, P):
    x = Ctx(w, P, sym_cfg=False, statistics='sym')
    c = x.c
    h0, m0 = x.T0.settings['hits'].num, x.T0.settings['misses'].num
    enable = bool(x.s.v_bool('enable'))
    reset = bool(x.s.v_bool('reset'))
    st, ret = x.call(c.stats, enable, reset)
    x.add('C03', 'stats returns (hits, misses)', And(EqR(zv(ret[0]), h0), EqR(zv(ret[1]), m0)))
    x.add('C03', 'stats resets the counters when asked', And(EqR(x.T1.settings['hits'].num, 0 if reset else h0), EqR(x.T1.settings['misses'].num, 0 if reset else m0)))
    x.add('C03', 'stats sets the statistics switch', And(EqR(x.T1.settings['statistics'].num, int(enable)), bool(c.statistics) == enable))
    x.add('C03', 'stats changes no item', unchanged(x.T0, x.T1))
    return x.result()


@directive_aware
def ob_volume(w, P):
    x = Ctx(w, P, sym_cfg=False)
    st, ret = x.call(x.c.volume)
    x.add('C03,C09', 'volume == page_size * page_count + sum of sizes', EqR(zv(ret), AddR(x.volume_bytes(), x.T0.total_size())))
    return x.result()


# ------------------------------------------------------------------ job list

FUNCS = {
    'ob_set': ['core.Cache.set', 'core.Cache._row_update', 'core.Cache._row_insert', 'core.Cache._cull', 'core.Cache._transact', 'core.Cache.volume', 'core.Cache.reset', 'core.Disk.put', 'core.Disk.store'],
    'ob_set_file': ['core.Cache.set', 'core.Disk.store', 'core.Disk._write', 'core.Disk.filename', 'core.Disk.remove', 'core.Cache._cull', 'core.Cache._transact'],
    'ob_add': ['core.Cache.add', 'core.Cache._row_update', 'core.Cache._row_insert', 'core.Cache._cull', 'core.Cache._transact'],
    'ob_add_file': ['core.Cache.add', 'core.Disk.store', 'core.Disk._write', 'core.Disk.remove', 'core.Cache._transact'],
    'ob_touch': ['core.Cache.touch', 'core.Cache._transact'],
    'ob_put_pairs': ['core.Disk.put', 'core.Disk.get'],
    'ob_incr': ['core.Cache.incr', 'core.Cache.decr', 'core.Cache._cull', 'core.Cache._transact', 'core.Disk.store'],
    'ob_get': ['core.Cache.get', 'core.Disk.fetch', 'core.Cache._transact'],
    'ob_getitem': ['core.Cache.__getitem__', 'core.Cache.read', 'core.Cache.get', 'core.Disk.fetch'],
    'ob_contains': ['core.Cache.__contains__'],
    'ob_pop': ['core.Cache.pop', 'core.Disk.fetch', 'core.Disk.remove', 'core.Cache._transact'],
    'ob_delete': ['core.Cache.delete', 'core.Cache.__delitem__', 'core.Cache._transact', 'core.Disk.remove'],
    'ob_clear': ['core.Cache.clear', 'core.Cache._select_delete', 'core.Cache._transact'],
    'ob_evict': ['core.Cache.evict', 'core.Cache._select_delete'],
    'ob_expire': ['core.Cache.expire', 'core.Cache._select_delete'],
    'ob_cull': ['core.Cache.cull', 'core.Cache.expire', 'core.Cache._select_delete', 'core.Cache.volume'],
    'ob_len': ['core.Cache.__len__', 'core.Cache.reset'],
    'ob_iter': ['core.Cache.__iter__', 'core.Cache.__reversed__', 'core.Cache._iter', 'core.Cache.iterkeys', 'core.Disk.get'],
    'ob_peekitem': ['core.Cache.peekitem', 'core.Disk.get', 'core.Disk.fetch'],
    'ob_stats': ['core.Cache.stats', 'core.Cache.reset'],
    'ob_volume': ['core.Cache.volume'],
}

TAGS = {
    'ob_set': 'C03,C04,C08,C09', 'ob_set_file': 'C03,C08,C09,C01', 'ob_add': 'C03,C04,C08,C09', 'ob_add_file': 'C03,C04,C08',
    'ob_touch': 'C03,C04,C08', 'ob_incr': 'C03,C04,C08,C09,C01', 'ob_get': 'C03,C04,C08,C09', 'ob_getitem': 'C03,C04', 'ob_contains': 'C03,C04',
    'ob_pop': 'C03,C04,C08', 'ob_delete': 'C03,C04,C08', 'ob_clear': 'C03,C08', 'ob_evict': 'C03,C08', 'ob_expire': 'C03,C04,C08',
    'ob_cull': 'C09,C04,C08', 'ob_len': 'C03,C08', 'ob_iter': 'C03', 'ob_peekitem': 'C03,C04,C08', 'ob_stats': 'C03', 'ob_volume': 'C03,C09',
}

SHORT = {'least-recently-stored': 'lrs', 'least-recently-used': 'lru', 'least-frequently-used': 'lfu', 'none': 'none'}


def jobs(tier):
    out = []

    def add(func, weight=1, must=(), **P):
        name = func[3:] + '.' + '.'.join('%s=%s' % (k, SHORT.get(v, v)) for k, v in sorted(P.items()))
        out.append(dict(id=name, func=func, params=P, tags=TAGS[func].split(','), functions=FUNCS[func], weight=weight, must_reach=list(must)))
    quick = tier == 'quick'
    Ns = [2] if quick else [2, 3]
    big = [] if quick else [4]
    for N in Ns:
        for pol in POLICIES:
            add('ob_set', weight=N ** 3, must=['volume_read'] if pol != 'none' else [], N=N, policy=pol)
            add('ob_add', weight=N ** 3, must=['add_refused', 'add_wrote'], N=N, policy=pol)
            add('ob_incr', weight=N ** 2, must=['incr_keyerror'], N=N, policy=pol)
            add('ob_incr', weight=N ** 2, N=N, policy=pol, decr=True)
            for stats in (False, True):
                add('ob_get', N=N, policy=pol, statistics=stats)
            add('ob_cull', weight=N ** 2, N=N, policy=pol, batch=1)
        add('ob_incr', weight=N ** 2, must=['incr_overflow'], N=N, policy='least-recently-stored', wide=True, no_cull=True)
        add('ob_incr', weight=N ** 2, must=['incr_overflow'], N=N, policy='none', wide=True, decr=True, no_cull=True)
        add('ob_get', N=N, policy='least-recently-used', expire_time=True, tag=True)
        add('ob_get', N=N, policy='least-recently-stored', expire_time=True)
        add('ob_get', N=N, policy='least-recently-stored', tag=True)
        add('ob_set_file', weight=N ** 3, N=N, policy='least-recently-stored')
        add('ob_add_file', N=N, must=['add_refused'])
        add('ob_touch', N=N, must=['touched'])
        add('ob_getitem', N=N, via='getitem')
        add('ob_getitem', N=N, via='read')
        add('ob_contains', N=N)
        add('ob_pop', N=N)
        add('ob_pop', N=N, expire_time=True, tag=True)
        add('ob_delete', N=N, via='delete')
        add('ob_delete', N=N, via='delitem')
        for page in (1, 2):
            add('ob_clear', N=N, page=page)
            add('ob_evict', N=N, page=page)
            add('ob_expire', N=N, page=page)
            add('ob_expire', N=N, page=page, explicit_now=False)
            add('ob_expire', N=N, page=page, expire_pos=False)
            for how in ('iter', 'reversed', 'iterkeys', 'iterkeys_rev'):
                add('ob_iter', N=N, page=page, how=how)
        # inline rows only: the `filename` column is then a plain NULL for the code under test (with file-backed rows possible it is a
        # symbolic name object, and an `is None` test on it cannot be steered)
        for pol in ('none', 'least-recently-stored'):
            add('ob_set', weight=N ** 2, N=N, policy=pol, kinds=('int',))
        add('ob_add', weight=N ** 2, N=N, policy='none', kinds=('int',))
        add('ob_incr', weight=N ** 2, N=N, policy='none', kinds=('int',))
        add('ob_touch', N=N, kinds=('int',))
        add('ob_pop', N=N, kinds=('int',))
        # stored expiry times of any sign, 0.0 included (an item stored with a negative ttl, or under a clock that reads below zero)
        for fn_, ex_ in (('ob_get', {}), ('ob_getitem', {'via': 'getitem'}), ('ob_contains', {}), ('ob_pop', {}), ('ob_touch', {}), ('ob_add', {'policy': 'none'}), ('ob_incr', {'policy': 'none'}),
                         ('ob_delete', {'via': 'delete'}), ('ob_peekitem', {'last': True}), ('ob_peekitem', {'last': False})):
            add(fn_, weight=2, N=N, expire_pos=False, **ex_)
        if quick:
            # three rows over pages of one row: a page boundary with a full page after it
            for how in ('iter', 'reversed', 'iterkeys', 'iterkeys_rev'):
                add('ob_iter', weight=4, N=3, page=1, how=how, kinds=('int',))
            add('ob_clear', weight=4, N=3, page=1, kinds=('int',))
            add('ob_expire', weight=4, N=3, page=1, kinds=('int',))
        add('ob_len', N=N)
        add('ob_peekitem', N=N, last=True)
        add('ob_peekitem', N=N, last=False)
        add('ob_stats', N=N)
        add('ob_volume', N=N)
    # ---- keys of mixed representation (C02: every statement filters on key AND raw)
    for func, extra in (('ob_set', {}), ('ob_add', {}), ('ob_touch', {}), ('ob_incr', {}), ('ob_get', {}), ('ob_contains', {}), ('ob_pop', {}), ('ob_delete', {'via': 'delete'}),
                        ('ob_getitem', {'via': 'getitem'})):
        out.append(dict(id=func[3:] + '.mixedkeys', func=func, params=dict(N=2, keypool=True, kinds=('int',), no_cull=True, tags=False, **extra), tags=['C02', 'C03', 'C12'], functions=FUNCS[func] + ['core.Disk.put'],
                        weight=30, must_reach=['mixed_keys']))
    out.append(dict(id='put.pairs.mixedkeys', func='ob_put_pairs', params=dict(N=1, kinds=('int',)), tags=['C02'], functions=FUNCS['ob_put_pairs'], weight=2))
    out.append(dict(id='iter.mixedkeys', func='ob_iter', params=dict(N=2, keypool=True, kinds=('int',), how='iter'), tags=['C02', 'C03'], functions=FUNCS['ob_iter'], weight=10))
    for how in ('iterkeys', 'iterkeys_rev', 'reversed'):
        out.append(dict(id='%s.mixedkeys' % how, func='ob_iter', params=dict(N=2, keypool=True, kinds=('int',), how=how), tags=['C02', 'C03'], functions=FUNCS['ob_iter'], weight=10))
    # ---- directives: busy lock (C14), injected fault (C08), kill (C07)
    NB = 2
    for func in ('ob_set', 'ob_set_file', 'ob_add', 'ob_add_file', 'ob_touch', 'ob_incr', 'ob_pop', 'ob_delete'):
        out.append(dict(id=func[3:] + '.busy.noretry', func=func, params=dict(N=NB, busy=1), tags=['C14', 'C08'], functions=FUNCS[func] + ['core.Cache._transact'],
                        weight=2, must_reach=['timeout_raised']))
        out.append(dict(id=func[3:] + '.busy.retry', func=func, params=dict(N=NB, busy=1, retry=True), tags=['C14', 'C05'] + (['C01', 'C08', 'C07'] if func.endswith('_file') else []), functions=FUNCS[func] + ['core.Cache._transact'],
                        weight=20, must_reach=['lock_busy'], all_clauses=True))
    for func in ('ob_clear', 'ob_evict', 'ob_expire'):
        out.append(dict(id=func[3:] + '.busy.noretry', func=func, params=dict(N=NB, busy=1, bulk=True, page=1), tags=['C14', 'C08'], functions=FUNCS[func],
                        weight=2, must_reach=['timeout_raised']))
        out.append(dict(id=func[3:] + '.busy.retry', func=func, params=dict(N=NB, busy=1, retry=True, page=1), tags=['C14'], functions=FUNCS[func],
                        weight=5, must_reach=['lock_busy'], all_clauses=True))
    for func, extra in (('ob_clear', {}), ('ob_evict', {}), ('ob_expire', {}), ('ob_cull', {'policy': 'least-recently-stored', 'batch': 1}), ('ob_cull', {'policy': 'least-frequently-used', 'batch': 1})):
        out.append(dict(id=func[3:] + '.busy.later.' + SHORT.get(extra.get('policy'), ''), func=func, params=dict(N=2, busy='later', bulk=True, page=1, **extra), tags=['C14', 'C08', 'C13', 'C03'],
                        functions=FUNCS[func], weight=8, must_reach=['timeout_raised']))
    for pol in ('least-recently-stored', 'none'):
        out.append(dict(id='cull.busy.noretry.' + SHORT[pol], func='ob_cull', params=dict(N=NB, busy=1, bulk=True, policy=pol), tags=['C14', 'C08'], functions=FUNCS['ob_cull'],
                        weight=2, must_reach=['timeout_raised']))
        out.append(dict(id='cull.busy.retry.' + SHORT[pol], func='ob_cull', params=dict(N=NB, busy=1, retry=True, policy=pol), tags=['C14', 'C09'], functions=FUNCS['ob_cull'],
                        weight=5, must_reach=['lock_busy'], all_clauses=True))
    for pol, stats in (('least-recently-used', False), ('least-recently-stored', True)):
        out.append(dict(id='get.busy.noretry.%s.%s' % (SHORT[pol], stats), func='ob_get', params=dict(N=NB, busy=1, policy=pol, statistics=stats), tags=['C14'],
                        functions=FUNCS['ob_get'], weight=2, must_reach=['timeout_raised']))
        out.append(dict(id='get.busy.retry.%s.%s' % (SHORT[pol], stats), func='ob_get', params=dict(N=NB, busy=1, retry=True, policy=pol, statistics=stats), tags=['C14'],
                        functions=FUNCS['ob_get'], weight=2, must_reach=['lock_busy'], all_clauses=True))
    for pol, stats in (('least-recently-used', False), ('least-frequently-used', False), ('least-recently-stored', True)):
        out.append(dict(id='getitem.busy.waits.%s.%s' % (SHORT[pol], stats), func='ob_getitem', params=dict(N=NB, busy=1, waits=True, via='getitem', policy=pol, statistics=stats), tags=['C14'],
                        functions=FUNCS['ob_getitem'], weight=2, must_reach=['lock_busy'], all_clauses=True))
    for func, extra in (('ob_incr', {}), ('ob_peekitem', {'last': True}), ('ob_delete', {'via': 'delitem'}), ('ob_pop', {}), ('ob_getitem', {'via': 'getitem'})):
        out.append(dict(id='%s.prelude' % func[3:], func=func, params=dict(N=1, cache_prelude=True, kinds=('int',), no_cull=True, **extra), tags=['C03', 'C08'], functions=FUNCS[func] + ['core.Cache._transact'],
                        weight=6, must_reach=['prelude']))
    for func, via in (('ob_set', 'setitem'), ('ob_delete', 'delitem')):
        out.append(dict(id='%s.busy.waits' % via, func=func, params=dict(N=NB, busy=1, waits=True, via=via), tags=['C14'], functions=FUNCS[func], weight=4, must_reach=['lock_busy'], all_clauses=True))
    for func, extra in (('ob_get', {}), ('ob_getitem', {'via': 'getitem'}), ('ob_contains', {}), ('ob_len', {}), ('ob_iter', {'how': 'iter'}), ('ob_iter', {'how': 'iterkeys'})):
        out.append(dict(id=func[3:] + '.lockfree.' + '.'.join(extra.values()), func=func, params=dict(N=NB, busy='always', **extra), tags=['C14'], functions=FUNCS[func], weight=1, all_clauses=True))
    for func in ('ob_set', 'ob_set_file', 'ob_add_file', 'ob_incr', 'ob_pop', 'ob_delete', 'ob_touch', 'ob_clear', 'ob_expire'):
        out.append(dict(id=func[3:] + '.fault', func=func, params=dict(N=NB, fault=True, page=1), tags=['C08', 'C01'], functions=FUNCS[func] + ['core.Cache._transact'],
                        weight=30, must_reach=['fault_escaped'], only_tags=['C08', 'FAULT']))
    for func in ('ob_set', 'ob_set_file', 'ob_add_file', 'ob_incr', 'ob_pop', 'ob_delete', 'ob_touch', 'ob_clear', 'ob_expire', 'ob_evict', 'ob_cull'):
        # set: in-database rows here (set_file.kill and add_file.kill carry the file-backed rows); generous budget: these are the longest jobs
        out.append(dict(id=func[3:] + '.kill', func=func, params=dict(N=NB, crash=True, page=1, **({'kinds': ('int',)} if func == 'ob_set' else {})), tags=['C07'],
                        functions=FUNCS[func] + ['core.Cache._transact'], weight=60, must_reach=['crashed'], budget_s=900 if quick else 2400))
    for N in big:
        add('ob_set', weight=N ** 3, N=N, policy='least-recently-stored', kinds=('int',))  # four rows: in-database values only (file-backed rows at N <= 3)
        add('ob_cull', weight=N ** 2, N=N, policy='least-recently-used', batch=2)
        for page in (1, 2, 3):
            add('ob_expire', N=N, page=page)
            add('ob_clear', N=N, page=page)
            add('ob_iter', N=N, page=page, how='iter')
            add('ob_iter', N=N, page=page, how='iterkeys_rev')
    return out
