"""C16 (wrappers): Cache.memoize / FanoutCache.memoize / Index.memoize / DjangoCache.memoize / memoize_stampede
run for real over a recording cache with expiry under the symbolic clock: the wrapper returns what the function
returns, a repeated call within the expiry does not run the function, different arguments do not share an entry,
an expiry of zero stores nothing.  (Key construction itself is the E2 obligation set on args_to_key.)"""
from symdc import sx, env
from symdc.sx import And, Or, Not, Implies, EqR, LtR, LeR, AndL
from symdc.zpath import I, R, B, assume, flag
from obligations.cache_ops import zv, is_num_like


class MemoCache:
    """dictionary with expiry; signature-compatible with the calls the decorators make"""

    def __init__(self, w, L):
        self.w, self.L = w, L
        self.d = {}
        self.sets = 0
        self.retry_flags = []  # (method, retry) of every call a decorator makes

    def _now(self):
        return self.w.time()

    def get(self, key, default=None, *a, expire_time=False, retry=False, **k):
        self.retry_flags.append(('get', retry))
        ent = self.d.get(key)
        if ent is not None:
            val, exp = ent
            if exp is None or bool(self._now() < exp):
                return (val, exp) if expire_time else val
        return (default, None) if expire_time else default

    def set(self, key, value, expire=None, *a, tag=None, retry=False, **k):
        self.retry_flags.append(('set', retry))
        self.sets += 1
        self.d[key] = (value, None if expire is None else self._now() + expire)
        return True

    def add(self, key, value, expire=None, *a, retry=False, **k):
        self.retry_flags.append(('add', retry))
        n = len(self.retry_flags)
        try:
            if self.get(key, default=self.L.core.ENOVAL) is not self.L.core.ENOVAL:
                return False
            return self.set(key, value, expire)
        finally:
            del self.retry_flags[n:]

    def __enter__(self):
        return self

    def __exit__(self, *a):
        return False


class DjangoLike(MemoCache):
    def get(self, key, default=None, version=None, retry=False, **k):
        return MemoCache.get(self, (key, version), default, retry=retry)

    def set(self, key, value, timeout=None, version=None, tag=None, retry=False, **k):
        from django.core.cache.backends.base import DEFAULT_TIMEOUT
        if timeout == DEFAULT_TIMEOUT:
            timeout = 300
        return MemoCache.set(self, (key, version), value, timeout, retry=retry)


def ob_memo(w, P):
    L = w.L
    variant = P['variant']
    cl = []
    calls = []

    def func(a, b=0):
        calls.append((a, b))
        return a * 10 + b
    # expiry class: None / 0 / positive (symbolic)
    ecls = ['none', 'zero', 'pos'][int(w.int('ecls', 0, 2))]
    ev = w.real('expire', 1, 2 ** 30)
    expire = {'none': None, 'zero': 0, 'pos': ev}[ecls]
    typed = bool(w.bool('typed'))
    if variant == 'cache':
        mc = MemoCache(w, L)
        f = L.core.Cache.memoize(mc, name='f', typed=typed, expire=expire)(func)
    elif variant == 'fanout':
        mc = MemoCache(w, L)
        f = L.fanout.FanoutCache.memoize(mc, name='f', typed=typed, expire=expire)(func)
    elif variant == 'index':
        mc = MemoCache(w, L)
        ix = L.persistent.Index.__new__(L.persistent.Index)
        mc.memoize = lambda name=None, typed=False, expire=None, tag=None, ignore=(): L.core.Cache.memoize(mc, name, typed, expire, tag, ignore)
        ix._cache = mc
        f = ix.memoize(name='f', typed=typed)(func)
        expire, ecls = None, 'none'
    elif variant == 'django':
        from django.core.cache.backends.base import DEFAULT_TIMEOUT
        mc = DjangoLike(w, L)
        dj = L.djangocache.DjangoCache
        timeout = {'none': None, 'zero': 0, 'pos': ev}[ecls]
        ver = [None, 2][int(w.int('version_i', 0, 1))]
        f = dj.memoize(mc, name='f', timeout=timeout, typed=typed, version=ver)(func)
    elif variant == 'stampede':
        mc = MemoCache(w, L)
        rec = L.recipes
        started = []

        class T:
            def __init__(self, target=None):
                self.target = target
                self.daemon = False

            def start(self):
                started.append(self.target)
                if P.get('run_thread', True):
                    self.target()
        rec.threading = type('X', (), {'Thread': T, 'get_ident': staticmethod(lambda: w.tid)})
        early = bool(w.bool('early_recompute'))
        rec.random = type('X', (), {'random': staticmethod(lambda: 0.5)})
        rec.math = type('X', (), {'log': staticmethod(lambda x: (-10 ** 12 if early else 0))})
        if ecls != 'pos':
            ecls, expire = 'pos', ev
        f = rec.memoize_stampede(mc, expire, name='f', typed=typed)(func)
    else:
        raise ValueError(variant)
    x = int(w.int('x', 0, 2))
    y = int(w.int('y', 0, 2))
    gap = w.real('gap', 0, 2 ** 30)
    r1 = f(x)
    n1 = len(calls)
    cl.append(('C16', 'the wrapper returns what the function returns', r1 == func.__wrapped__(x) if hasattr(func, '__wrapped__') else r1 == x * 10))
    # a second call after `gap` seconds
    t_before = w.times[-1] if w.times else 0
    saved = w.clock_fn
    base_t = t_before

    def later():
        return R(sx.AddR(base_t, zv(gap)))
    w.clock_fn = later
    r2 = f(x)
    n2 = len(calls)
    cl.append(('C16', 'a repeated call returns the same result', r2 == x * 10))
    if ecls == 'zero':
        cl.append(('C16', 'an expiry of zero stores nothing (the function runs again)', n2 == n1 + 1 and not any(v for v in mc.d.values() if False) and mc.sets == 0))
    elif ecls == 'none':
        cl.append(('C16', 'a repeated call without expiry is served from the cache', n2 == n1))
    else:
        within = LtR(zv(gap), zv(ev)) if variant != 'stampede' else LtR(zv(gap), zv(ev))
        reran = (n2 == n1 + 1)
        if variant == 'stampede':
            # served from the cache within the expiry (an early recomputation may run the function in the background,
            # the caller still gets the cached result)
            cl.append(('C16', 'within the expiry the cached result is returned', Implies(within, r2 == x * 10)))
        else:
            cl.append(('C16', 'a repeated call within the expiry does not run the function again', Implies(within, not reran)))
            cl.append(('C16', 'after the expiry the function runs again', Implies(LtR(zv(ev), zv(gap)), reran)))
    # a call with different arguments must run the function and return its own result
    n_before = len(calls)
    r3 = f(y, 1)
    cl.append(('C16', 'calls with different arguments do not share an entry', r3 == y * 10 + 1 and len(calls) == n_before + 1))
    w.clock_fn = saved
    # keyword arguments, repeated under the free-running clock (a background recomputation may start): every run of the function
    # for this entry gets the caller's arguments, and every call returns this entry's result
    n_kw = len(calls)
    rs = [f(y, b=2) for _ in range(3)]
    cl.append(('C16', 'repeated calls with a keyword argument return its result', all(r == y * 10 + 2 for r in rs)))
    cl.append(('C16', 'every run of the function for that entry receives the keyword argument', len(calls) > n_kw and all(c == (y, 2) for c in calls[n_kw:])))
    # a memoized call waits for a busy cache instead of failing or recomputing: every lookup and store asks for retry
    cl.append(('C16,C14', 'every cache access of the wrapper waits for a busy lock (%s)' % sorted(set(f for f in mc.retry_flags if f[1] is not True)),
               len(mc.retry_flags) > 0 and all(r is True for _, r in mc.retry_flags)))
    flag('nontrivial')
    return cl


def ob_memo_names(w, P):
    """name=None: the key base is derived from the function; two different functions with the same __name__ (methods of
    two classes, local helpers of two outer functions) memoized on one cache must not share entries"""
    L = w.L
    cl = []
    mc = MemoCache(w, L)
    calls = []

    class Circle:
        @staticmethod
        def area(r):
            calls.append('circle')
            return ('circle', r)

    class Square:
        @staticmethod
        def area(r):
            calls.append('square')
            return ('square', r)

    def outer1():
        def helper(x):
            calls.append('h1')
            return ('h1', x)
        return helper

    def outer2():
        def helper(x):
            calls.append('h2')
            return ('h2', x)
        return helper
    variant = P['variant']
    if variant == 'cache':
        deco = lambda f: L.core.Cache.memoize(mc)(f)
    elif variant == 'django':
        mc = DjangoLike(w, L)
        deco = lambda f: L.djangocache.DjangoCache.memoize(mc)(f)
    else:
        deco = lambda f: L.recipes.memoize_stampede(mc, 100)(f)
        L.recipes.random = type('X', (), {'random': staticmethod(lambda: 0.5)})
    w.clock_fn = lambda: 1000.0
    x = int(w.int('x', 0, 2))
    pairs = [(deco(Circle.area), deco(Square.area), 'circle', 'square'), (deco(outer1()), deco(outer2()), 'h1', 'h2')]
    if variant == 'cache':
        # ONE decorator object (one memoize() call without a name) applied to two functions
        def double(x):
            calls.append('double')
            return ('double', x)

        def square(x):
            calls.append('sq')
            return ('sq', x)
        for owner in ('cache', 'fanout', 'index'):
            if owner == 'cache':
                d_ = L.core.Cache.memoize(mc)
            elif owner == 'fanout':
                d_ = L.fanout.FanoutCache.memoize(mc)
            else:
                ix_ = L.persistent.Index.__new__(L.persistent.Index)
                mc.memoize = lambda name=None, typed=False, expire=None, tag=None, ignore=(): L.core.Cache.memoize(mc, name, typed, expire, tag, ignore)
                ix_._cache = mc
                d_ = ix_.memoize()
            pairs.append((d_(double), d_(square), 'double', 'sq'))
    for f1, f2, n1, n2 in pairs:
        r1 = f1(x)
        r2 = f2(x)
        cl.append(('C16', 'different functions with the same short name do not share entries', r1 == (n1, x) and r2 == (n2, x)))
        cl.append(('C16', 'their derived key bases differ', f1.__cache_key__(x) != f2.__cache_key__(x)))
    flag('nontrivial')
    return cl


def ob_memo_aux_keys(w, P):
    """memoize_stampede keeps an auxiliary entry (the "recomputation started" marker) next to the result: while that entry
    is live, every OTHER call signature -- in particular the ones whose key extends the first call's key by None values --
    still runs the function and gets its own result"""
    L = w.L
    rec = L.recipes
    mc = MemoCache(w, L)
    calls = []
    clock = [1000]
    w.clock_fn = lambda: float(clock[0])

    def func(*args, **kwargs):
        calls.append((args, tuple(sorted(kwargs.items()))))
        clock[0] += 5  # the function takes time: the marker lives for that long
        return ('r', args, tuple(sorted(kwargs.items())))

    class T:
        def __init__(self, target=None):
            self.target, self.daemon = target, False

        def start(self):
            pass  # the recomputation thread has not run yet: the marker stays
    rec.threading = type('X', (), {'Thread': T, 'get_ident': staticmethod(lambda: w.tid)})
    rec.random = type('X', (), {'random': staticmethod(lambda: 0.5)})
    rec.math = type('X', (), {'log': staticmethod(lambda x: -10 ** 12)})  # the early-recomputation test always fires
    typed = bool(w.bool('typed'))
    f = rec.memoize_stampede(mc, 100, name='f', typed=typed)(func)
    pool = [0, None, 'a', 1.0]
    x = pool[int(w.int('x_i', 0, len(pool) - 1))]
    cl = []
    r1 = f(x)
    r2 = f(x)  # hit + early recomputation: the marker entry is added
    cl.append(('C16', 'both calls return the result of f(x)', r1 == ('r', (x,), ()) and r2 == ('r', (x,), ())))
    cl.append(('C16', 'an auxiliary entry was written next to the result', len(mc.d) >= 2))
    flag('marker_live') if len(mc.d) >= 2 else None
    others = [((x, None), {}), ((x, None, None), {}), ((x,), {'k': None}), ((None, x), {}), ((x, None), {'k': None})]
    i = int(w.int('other_i', 0, len(others) - 1))
    a, k = others[i]
    n0 = len(calls)
    r3 = f(*a, **k)
    cl.append(('C16', 'another call signature runs the function and gets its own result while the marker is live', r3 == ('r', a, tuple(sorted(k.items()))) and len(calls) == n0 + 1))
    flag('nontrivial')
    return cl

def ob_memo_layered(w, P):
    """memoize applied to a callable that is itself a memoized function (directly, or through an ordinary functools.wraps
    decorator, as in the landing-page case study): the outer wrapper keeps its own key function -- its keys carry the outer
    name / typed / ignore settings -- and the two layers never share an entry"""
    import functools
    L = w.L
    cl = []
    variant = P['variant']
    calls = []

    def base(a):
        calls.append(a)
        return a

    def doubled(f):
        @functools.wraps(f)
        def inner(a):
            return 2 * f(a)
        return inner
    if variant == 'django':
        mc = DjangoLike(w, L)
        memo = lambda **kw: L.djangocache.DjangoCache.memoize(mc, **kw)
    elif variant == 'stampede':
        mc = MemoCache(w, L)
        L.recipes.random = type('X', (), {'random': staticmethod(lambda: 0.5)})
        memo = lambda **kw: L.recipes.memoize_stampede(mc, 100, **kw)
    else:
        mc = MemoCache(w, L)
        memo = lambda **kw: L.core.Cache.memoize(mc, **kw)
    w.clock_fn = lambda: 1000.0
    x = int(w.int('x', 1, 3))
    typed = bool(w.bool('outer_typed'))
    through = bool(w.bool('through_plain_decorator'))
    inner = memo(name='inner')(base)
    r0 = inner(x)
    outer = memo(name='outer', typed=typed)(doubled(inner) if through else inner)
    r1 = outer(x)
    want = 2 * x if through else x
    cl.append(('C16', 'the outer memoized function returns what the function it wraps returns', r0 == x and r1 == want))
    ki, ko = inner.__cache_key__(x), outer.__cache_key__(x)
    cl.append(('C16', 'the outer layer builds its keys from its own name and settings', ko[0] == 'outer' and ki[0] == 'inner' and ko != ki and (not typed or ko[-1] is int)))
    cl.append(('C16', 'a second call is served from the outer entry', outer(x) == want and len(calls) == 1))
    flag('nontrivial')
    return cl


def ob_memo_zero_expiry(w, P):
    """the memoizers over the real Cache with an expiry of zero: nothing stays readable, so every call runs the function and
    returns its result (memoize_stampede passes the zero through to Cache.set; a DjangoCache whose default timeout is 0 does too)"""
    L = w.L
    cl = []
    t = [1000.0]

    def clock():
        t[0] += 1.0
        return t[0]
    w.clock_fn = clock
    calls = []

    def func(a):
        calls.append(a)
        return (a, len(calls))
    variant = P['variant']
    if variant == 'stampede':
        c = L.core.Cache(w.dir)
        rec = L.recipes
        rec.random = type('X', (), {'random': staticmethod(lambda: 0.5)})
        f = rec.memoize_stampede(c, 0, name='f')(func)
        probe = lambda: c.get(f.__cache_key__(6), default='nothing')
    else:
        dc = L.djangocache.DjangoCache(w.dir, {'SHARDS': 1, 'TIMEOUT': 0, 'OPTIONS': {}})
        f = dc.memoize(name='f')(func)
        probe = lambda: dc.get(f.__cache_key__(6), 'nothing')
    rs = []
    try:
        for _ in range(3):
            rs.append(f(6))
    except Exception as e:
        if type(e).__name__ == 'HarnessBug':
            raise
        rs.append(repr(e))
    cl.append(('C16,C04', 'with an expiry of zero every call runs the function and returns its result (%r)' % (rs,), rs == [(6, 1), (6, 2), (6, 3)]))
    cl.append(('C16,C04', 'and nothing stays readable', probe() == 'nothing'))
    flag('nontrivial')
    return cl


def jobs(tier):
    out = []
    F = {'cache': ['core.Cache.memoize', 'core.args_to_key'], 'fanout': ['core.Cache.memoize'], 'index': ['persistent.Index.memoize', 'core.Cache.memoize'],
         'django': ['djangocache.DjangoCache.memoize'], 'stampede': ['recipes.memoize_stampede']}
    for v in ('cache', 'fanout', 'index', 'django', 'stampede'):
        out.append(dict(id='memo.%s' % v, func='ob_memo', params=dict(variant=v), tags=['C16'], functions=F[v], weight=5, twin=False))
    for v in ('cache', 'django', 'stampede'):
        out.append(dict(id='memo.names.%s' % v, func='ob_memo_names', params=dict(variant=v), tags=['C16'], functions=['core.full_name'] + F[v], weight=3, twin=False))
    for v in ('cache', 'django', 'stampede'):
        out.append(dict(id='memo.layered.%s' % v, func='ob_memo_layered', params=dict(variant=v), tags=['C16'], functions=F[v], weight=3, twin=False))
    for v in ('stampede', 'django_default_zero'):
        out.append(dict(id='memo.zero_expiry.%s' % v, func='ob_memo_zero_expiry', params=dict(variant=v), tags=['C16', 'C04'], functions=['recipes.memoize_stampede', 'djangocache.DjangoCache.memoize', 'core.Cache.set'],
                        weight=3, twin=False))
    out.append(dict(id='memo.stampede.aux_keys', func='ob_memo_aux_keys', params={}, tags=['C16'], functions=F['stampede'], weight=5, twin=False, must_reach=['marker_live']))
    out.append(dict(id='memo.stampede.nothread', func='ob_memo', params=dict(variant='stampede', run_thread=False), tags=['C16'], functions=F['stampede'], weight=5, twin=False))
    return out
