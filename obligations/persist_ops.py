"""C11 / C12: the real Deque and Index methods on top of the real Cache on the model backend, compared with
collections.deque / collections.OrderedDict executing the same call on the abstraction of the pre-state.
Contents are symbolic (values symbolic ints, which rows exist symbolic); indices / steps / maxlen / keys are
symbolic over a small finite span and realised by solver forks."""
import collections

from symdc import sx, spec, state, scn as scn_mod, sqlmodel, env
from symdc.sx import (And, Or, Not, Implies, EqI, NeI, EqR, NeR, LtR, LeR, AndL, OrL, Count, simp, isz)
from symdc.zpath import I, R, B, assume, flag
from symdc.sqlmodel import Cell, CNULL, NULL, INT
from obligations.cache_ops import Ctx, zv, is_num_like, directive_aware

HI = 999999999999999


def vals_eq(a, b):
    if a is None or b is None:
        return a is None and b is None
    if isinstance(a, (tuple, list)) and isinstance(b, (tuple, list)):
        return And(len(a) == len(b), AndL(vals_eq(p, q) for p, q in zip(a, b))) if len(a) == len(b) else False
    if isinstance(a, B) or isinstance(b, B):
        az = a.z if isinstance(a, B) else bool(a)
        bz = b.z if isinstance(b, B) else bool(b)
        return sx.EqB(sx._fold(az) if not isinstance(az, bool) else az, sx._fold(bz) if not isinstance(bz, bool) else bz)
    if isinstance(a, bool) or isinstance(b, bool):
        return isinstance(a, bool) and isinstance(b, bool) and a == b
    if is_num_like(a) and is_num_like(b):
        return EqR(zv(a), zv(b))
    return a == b


def call_both(real_fn, oracle_fn, expect=(IndexError, KeyError, ValueError, TypeError)):
    try:
        r = ('ok', real_fn())
    except expect as e:
        r = ('exc', type(e))
    try:
        o = ('ok', oracle_fn())
    except expect as e:
        o = ('exc', type(e))
    if r[0] != o[0]:
        return False, r, o
    if r[0] == 'exc':
        return r[1] is o[1], r, o
    return vals_eq(r[1], o[1]), r, o


# ------------------------------------------------------------------ Deque

def deque_scn(w, P):
    x = Ctx(w, P, kinds=('file',) if P.get('files') else ('int',), tags=False, **({'min_file_size': 0} if P.get('prelude') or P.get('files') else {}))
    # queue items only: increasing in-range keys, no expiry (a Deque never writes one)
    prev = None
    for rv in x.s.rowvars:
        k = rv['key'].z
        assume(sx.zB(And(k >= 2, k <= HI - 2)))
        assume(rv['expire_null'].z)
        if prev is not None:
            assume(k > prev)
        prev = k
    contents = [rv['value'] for rv in x.s.rowvars if bool(rv['alive'])]
    return x, contents


def pick_int(x, name, lo, hi):
    return int(x.s.v_int(name, lo, hi))


def maybe_busy(w, x, P):
    """P['busy']: another client holds the write lock for the first k attempts (k symbolic): Deque / Index operations wait
    (they take the lock with retry) and then behave exactly as without the lock"""
    if not P.get('busy'):
        return
    kk = x.s.v_int('busy_k', 1, 2)
    cnt = [0]

    def hook(con):
        cnt[0] += 1
        flag('lock_busy')
        return bool(kk >= cnt[0])
    w.set_busy_hook(x.c, hook)


@directive_aware
def ob_deque(w, P):
    x, contents = deque_scn(w, P)
    L = w.L
    N = P['N']
    op = P['op']
    mi = pick_int(x, 'maxlen_i', -1, N + 1)
    maxlen = None if mi < 0 else mi
    if maxlen is not None and len(contents) > maxlen:
        assume(False)
    dq = L.persistent.Deque.fromcache(x.c, maxlen=maxlen)
    od = collections.deque(contents, maxlen)
    v = x.s.v_int('val', -2 ** 40, 2 ** 40)
    v2 = x.s.v_int('val2', -2 ** 40, 2 ** 40)
    maybe_busy(w, x, P)
    x.begin()
    if op in ('append', 'appendleft', 'count'):
        ok, r, o = call_both(lambda: getattr(dq, op)(v), lambda: getattr(od, op)(v))
    elif op == 'remove':
        ok, r, o = call_both(lambda: dq.remove(v), lambda: od.remove(v))
    elif op in ('extend', 'extendleft'):
        ok, r, o = call_both(lambda: getattr(dq, op)([v, v2]), lambda: getattr(od, op)([v, v2]))
    elif op in ('extend_failing', 'extendleft_failing'):
        # the iterable raises after it has produced items: collections.deque keeps what it was given so far
        def failing():
            yield v
            yield v2
            raise ValueError('iterable failed')
        meth = op.split('_')[0]
        ok, r, o = call_both(lambda: getattr(dq, meth)(failing()), lambda: getattr(od, meth)(failing()))
    elif op == 'iadd':
        def f1():
            d2 = dq
            d2 += [v, v2]
            return None

        def f2():
            o2 = od
            o2 += [v, v2]
            return None
        ok, r, o = call_both(f1, f2)
    elif op in ('pop', 'popleft', 'reverse', 'clear'):
        ok, r, o = call_both(getattr(dq, op), getattr(od, op))
    elif op in ('peek', 'peekleft'):
        ok, r, o = call_both(getattr(dq, op), (lambda: od[-1]) if op == 'peek' else (lambda: od[0]))
    elif op == 'getitem':
        i = pick_int(x, 'index', -N - 2, N + 1)
        ok, r, o = call_both(lambda: dq[i], lambda: od[i])
    elif op == 'setitem':
        i = pick_int(x, 'index', -N - 2, N + 1)
        ok, r, o = call_both(lambda: dq.__setitem__(i, v), lambda: od.__setitem__(i, v))
    elif op == 'delitem':
        i = pick_int(x, 'index', -N - 2, N + 1)
        ok, r, o = call_both(lambda: dq.__delitem__(i), lambda: od.__delitem__(i))
    elif op == 'rotate':
        s_ = pick_int(x, 'steps', -N - 2, N + 2)
        ok, r, o = call_both(lambda: dq.rotate(s_), lambda: od.rotate(s_))
    elif op == 'rotate_bad':
        ok, r, o = call_both(lambda: dq.rotate('x'), lambda: od.rotate('x'))
    elif op == 'len':
        ok, r, o = call_both(lambda: len(dq), lambda: len(od))
    elif op == 'iter':
        ok, r, o = call_both(lambda: list(dq), lambda: list(od))
    elif op == 'reversed':
        ok, r, o = call_both(lambda: list(reversed(dq)), lambda: list(reversed(od)))
    elif op == 'contains':
        ok, r, o = call_both(lambda: v in dq, lambda: v in od)
    elif op == 'index':
        ok, r, o = call_both(lambda: dq.index(v), lambda: od.index(v))
    elif op == 'maxlen_set':
        m2 = pick_int(x, 'maxlen2', 0, N + 1)

        def f1():
            dq.maxlen = m2
            return dq.maxlen

        def f2():
            nonlocal od
            od = collections.deque(od, m2)
            return od.maxlen
        ok, r, o = call_both(f1, f2)
    elif op in ('eq', 'ne', 'lt', 'le', 'gt', 'ge'):
        m = pick_int(x, 'other_len', 0, 2)
        other = collections.deque([v, v2][:m])
        import operator
        f = getattr(operator, op)
        ok, r, o = call_both(lambda: bool(f(dq, other)), lambda: bool(f(od, other)))
    elif op == 'copy':
        def f1():
            d2 = dq.copy()
            return (list(d2), d2.maxlen == dq.maxlen, d2.directory == dq.directory)

        def f2():
            return (list(od), True, True)
        ok, r, o = call_both(f1, f2)
    elif op == 'state':
        def f1():
            st = dq.__getstate__()
            d2 = L.persistent.Deque.__new__(L.persistent.Deque)
            d2.__setstate__(st)
            return (list(d2), d2.maxlen == dq.maxlen)

        def f2():
            return (list(od), True)
        ok, r, o = call_both(f1, f2)
    else:
        raise ValueError(op)
    x.end()
    x.add('C11', 'Deque.%s returns / raises what collections.deque does' % op, ok)
    after = list(dq)
    x.add('C11', 'Deque.%s leaves the contents collections.deque leaves' % op, vals_eq(after, list(od)))
    x.add('C11', 'length agrees', len(dq) == len(od))
    T1 = x.T1 = x.s.snapshot()
    x.add('C11', 'a Deque never writes an expiry time or a tag', AndL(Implies(it.present, And(EqI(it.c['expire_time'].cls, NULL), EqI(it.c['tag'].cls, NULL))) for it in T1.items))
    x.add('C11,C08', 'counters match', state.inv_table(T1))
    return x.result()


# ------------------------------------------------------------------ Index

def index_scn(w, P):
    N = P['N']
    x = Ctx(w, P, kinds=('int', 'none') if P.get('nones') else ('int',), tags=False, key_lo=0, key_hi=N + 1, **({'min_file_size': 0} if P.get('prelude') else {}))
    for rv in x.s.rowvars:
        assume(rv['expire_null'].z)
    contents = []
    for rv in x.s.rowvars:
        if bool(rv['alive']):
            if P.get('nones') and bool(rv['isnone']):
                contents.append((int(rv['key']), None))
            else:
                contents.append((int(rv['key']), rv['value']))
    return x, contents


@directive_aware
def ob_index(w, P):
    x, contents = index_scn(w, P)
    L = w.L
    N = P['N']
    op = P['op']
    ix = L.persistent.Index.fromcache(x.c)
    od = collections.OrderedDict(contents)
    k = pick_int(x, 'key', 0, N + 1)
    v = x.s.v_int('val', -2 ** 40, 2 ** 40)
    maybe_busy(w, x, P)
    x.begin()
    if op == 'getitem':
        ok, r, o = call_both(lambda: ix[k], lambda: od[k])
    elif op == 'setitem':
        ok, r, o = call_both(lambda: ix.__setitem__(k, v), lambda: od.__setitem__(k, v))
    elif op == 'delitem':
        ok, r, o = call_both(lambda: ix.__delitem__(k), lambda: od.__delitem__(k))
    elif op == 'pop':
        ok, r, o = call_both(lambda: ix.pop(k), lambda: od.pop(k))
    elif op == 'pop_default':
        ok, r, o = call_both(lambda: ix.pop(k, -7), lambda: od.pop(k, -7))
    elif op in ('popitem_last', 'popitem_first'):
        last = op.endswith('last')
        ok, r, o = call_both(lambda: ix.popitem(last=last), lambda: od.popitem(last=last))
    elif op in ('peekitem_last', 'peekitem_first'):
        last = op.endswith('last')
        ok, r, o = call_both(lambda: ix.peekitem(last=last), lambda: (next(reversed(od.items())) if last else next(iter(od.items()))), expect=(KeyError, StopIteration))
        if r[0] == 'exc' and o[0] == 'exc':
            ok = True
    elif op == 'setdefault':
        ok, r, o = call_both(lambda: ix.setdefault(k, v), lambda: od.setdefault(k, v))
    elif op == 'get':
        ok, r, o = call_both(lambda: ix.get(k, -7), lambda: od.get(k, -7))
    elif op == 'contains':
        ok, r, o = call_both(lambda: k in ix, lambda: k in od)
    elif op == 'update':
        k2 = pick_int(x, 'key2', 0, N + 1)
        ok, r, o = call_both(lambda: ix.update([(k, v), (k2, v)]), lambda: od.update([(k, v), (k2, v)]))
    elif op == 'len':
        ok, r, o = call_both(lambda: len(ix), lambda: len(od))
    elif op == 'keys':
        ok, r, o = call_both(lambda: list(ix.keys()), lambda: list(od.keys()))
    elif op == 'values':
        ok, r, o = call_both(lambda: list(ix.values()), lambda: list(od.values()))
    elif op == 'items':
        ok, r, o = call_both(lambda: list(ix.items()), lambda: list(od.items()))
    elif op == 'reversed':
        ok, r, o = call_both(lambda: list(reversed(ix)), lambda: list(reversed(od)))
    elif op == 'clear':
        ok, r, o = call_both(ix.clear, od.clear)
    elif op in ('eq_ordered', 'eq_dict', 'ne_ordered'):
        # compare with a mapping holding the same items, possibly in another order / with one value changed
        perm = pick_int(x, 'perm', 0, 1)
        changed = bool(x.s.v_bool('changed'))
        items = list(contents)
        if perm and len(items) >= 2:
            items[0], items[1] = items[1], items[0]
        if changed and items:
            items[-1] = (items[-1][0], v)
        other = collections.OrderedDict(items) if op != 'eq_dict' else dict(items)
        if op == 'ne_ordered':
            ok, r, o = call_both(lambda: bool(ix != other), lambda: bool(od != other))
        else:
            ok, r, o = call_both(lambda: bool(ix == other), lambda: bool(od == other))
    elif op in ('eq_dict_otherkey', 'ne_dict_otherkey'):
        # an unordered mapping of the same length in which one key is replaced by a key the index does not hold
        items = list(contents)
        which = pick_int(x, 'which', 0, max(0, len(items) - 1))
        oval = [None, v][pick_int(x, 'other_is_value', 0, 1)]
        if items:
            items[which] = (N + 5, oval)
        other = dict(items)
        if op.startswith('ne'):
            ok, r, o = call_both(lambda: bool(ix != other), lambda: bool(od != other))
        else:
            ok, r, o = call_both(lambda: bool(ix == other), lambda: bool(od == other))
    elif op == 'state':
        def f1():
            st = ix.__getstate__()
            i2 = L.persistent.Index.__new__(L.persistent.Index)
            i2.__setstate__(st)
            return list(i2.items())
        ok, r, o = call_both(f1, lambda: list(od.items()))
    else:
        raise ValueError(op)
    x.end()
    x.add('C12', 'Index.%s returns / raises what OrderedDict does' % op, ok)
    x.add('C12', 'Index.%s leaves the items (and their order) OrderedDict leaves' % op, vals_eq(list(ix.items()), list(od.items())))
    T1 = x.T1 = x.s.snapshot()
    x.add('C12', 'an Index never writes an expiry time or a tag', AndL(Implies(it.present, And(EqI(it.c['expire_time'].cls, NULL), EqI(it.c['tag'].cls, NULL))) for it in T1.items))
    x.add('C12,C08', 'counters match', state.inv_table(T1))
    return x.result()


DEQUE_OPS = ['append', 'appendleft', 'extend', 'extendleft', 'extend_failing', 'extendleft_failing', 'iadd', 'pop', 'popleft', 'peek', 'peekleft', 'getitem', 'setitem', 'delitem', 'rotate', 'rotate_bad',
             'reverse', 'remove', 'count', 'len', 'iter', 'reversed', 'contains', 'index', 'clear', 'maxlen_set', 'eq', 'ne', 'lt', 'le', 'gt', 'ge', 'copy', 'state']
INDEX_OPS = ['getitem', 'setitem', 'delitem', 'pop', 'pop_default', 'popitem_last', 'popitem_first', 'peekitem_last', 'peekitem_first', 'setdefault', 'get', 'contains',
             'update', 'len', 'keys', 'values', 'items', 'reversed', 'clear', 'eq_ordered', 'eq_dict', 'ne_ordered', 'state']

DEQUE_F = ['persistent.Deque.' + f for f in ('append', 'appendleft', 'extend', 'extendleft', 'pop', 'popleft', 'peek', 'peekleft', '_index', '__getitem__', '__setitem__',
                                              '__delitem__', 'rotate', 'reverse', 'remove', 'count', '__iter__', '__reversed__', 'clear', 'copy', '__getstate__', '__setstate__', 'fromcache')] + \
          ['persistent._make_compare', 'core.Cache.push', 'core.Cache.pull', 'core.Cache.peek', 'core.Cache.iterkeys']
INDEX_F = ['persistent.Index.' + f for f in ('__getitem__', '__setitem__', '__delitem__', 'setdefault', 'peekitem', 'pop', 'popitem', 'clear', '__iter__', '__reversed__',
                                              '__len__', '__eq__', '__ne__', '__getstate__', '__setstate__', 'fromcache')] + ['core.Cache.peekitem', 'core.Cache.pop', 'core.Cache.add']


def jobs(tier):
    out = []
    Ns = [2] if tier == 'quick' else [2, 3]
    for N in Ns:
        for op in DEQUE_OPS:
            out.append(dict(id='deque.%s.N=%d' % (op, N), func='ob_deque', params=dict(N=N, op=op, policy='none'), tags=['C11', 'C08'], functions=DEQUE_F, weight=N * 3))
        for op in INDEX_OPS:
            if N >= 3 and op == 'update':
                continue  # two symbolic keys on top of three symbolic rows: 6800 paths, covered at N=2
            out.append(dict(id='index.%s.N=%d' % (op, N), func='ob_index', params=dict(N=N, op=op, policy='none'), tags=['C12', 'C08'], functions=INDEX_F, weight=N * 3))
        if N == 2:
            # every mutator under a write lock that another client holds for a while: it waits and then does its work
            for op in ('append', 'appendleft', 'extend', 'extendleft', 'pop', 'popleft', 'setitem', 'delitem', 'rotate', 'reverse', 'remove', 'clear', 'maxlen_set', 'peek', 'getitem'):
                out.append(dict(id='deque.%s.busy' % op, func='ob_deque', params=dict(N=2, op=op, policy='none', busy=1), tags=['C11', 'C14'], functions=DEQUE_F, weight=8,
                                must_reach=['lock_busy'] if op not in ('peek', 'getitem') else []))
            for op in ('setitem', 'delitem', 'pop', 'popitem_last', 'popitem_first', 'setdefault', 'update', 'clear', 'peekitem_last', 'getitem'):
                out.append(dict(id='index.%s.busy' % op, func='ob_index', params=dict(N=2, op=op, policy='none', busy=1), tags=['C12', 'C14'], functions=INDEX_F, weight=8,
                                must_reach=['lock_busy'] if op not in ('getitem', 'peekitem_last') else []))
        if tier == 'quick':
            for op in ('iter', 'reversed', 'getitem', 'count', 'eq'):  # three items: Deque iteration crosses a full page and goes on
                out.append(dict(id='deque.%s.N=3' % op, func='ob_deque', params=dict(N=3, op=op, policy='none'), tags=['C11', 'C08'], functions=DEQUE_F, weight=9))
        for op in (('eq_dict_otherkey', 'ne_dict_otherkey', 'eq_dict', 'eq_ordered', 'getitem', 'get', 'pop', 'setdefault', 'values', 'items') if N == 2 else ('getitem', 'pop', 'setdefault')):
            out.append(dict(id='index.%s.nones.N=%d' % (op, N), func='ob_index', params=dict(N=N, op=op, policy='none', nones=True), tags=['C12', 'C01'], functions=INDEX_F, weight=N * 4))
    return out


# ------------------------------------------------------------------ concurrency clauses of C11 / C12

def _interleave(x, w, at_max, hook):
    at = x.s.v_int('at', 0, at_max)
    w.interfere_at = at
    w.interfere_hook = hook


@directive_aware
def ob_deque_pair(w, P):
    """A.append(a) overlapping B.appendleft(b) (or pops) on a bounded, full Deque shared through two handles:
    the final contents are those of one of the two serial orders"""
    x, contents = deque_scn(w, P)
    L = w.L
    N = P['N']
    opA, opB = P['a'], P['b']
    bounded = P.get('bounded', True)
    maxlen = len(contents) if bounded else None
    if bounded and maxlen == 0:
        assume(False)
    dqA = L.persistent.Deque.fromcache(x.c, maxlen=maxlen)
    other = w.clone_handle(x.c)
    dqB = L.persistent.Deque.fromcache(other, maxlen=maxlen)
    a = x.s.v_int('valA', -2 ** 30, 2 ** 30)
    b = x.s.v_int('valB', -2 ** 30, 2 ** 30)
    res = {}

    def run(dq, op, v):
        try:
            return ('ok', getattr(dq, op)(v) if op in ('append', 'appendleft') else getattr(dq, op)())
        except IndexError:
            return ('exc', IndexError)

    def intruder():
        w.tid, old = 2, w.tid
        try:
            res['B'] = run(dqB, opB, b)
        finally:
            w.tid = old
    if P.get('il'):
        box = {}
        w.preconnect(other, (w.pid, 2))
        x.begin()
        w.interleave(lambda: box.__setitem__('A', run(dqA, opA, a)), lambda: res.__setitem__('B', run(dqB, opB, b)),
                     x.s.v_int('at', 0, P.get('max_events', 12)), x.s.v_int('at2', 0, P.get('max_events', 12)), id_a=(w.pid, 1), id_b=(w.pid, 2))
        rA = box['A']
    else:
        _interleave(x, w, P.get('max_events', 30), intruder)
        x.begin()
        rA = run(dqA, opA, a)
    x.end()
    final = list(dqA)
    if 'B' not in res:
        return x.result()
    flag('interleaved')
    rB = res['B']

    def serial(first, second):
        od = collections.deque(contents, maxlen)
        outs = []
        for (op, v) in (first, second):
            try:
                outs.append(('ok', getattr(od, op)(v) if op in ('append', 'appendleft') else getattr(od, op)()))
            except IndexError:
                outs.append(('exc', IndexError))
        return od, outs

    def res_eq(r, o):
        if r[0] != o[0]:
            return False
        return True if r[0] == 'exc' else vals_eq(r[1], o[1])
    odAB, (oA1, oB1) = serial((opA, a), (opB, b))
    odBA, (oB2, oA2) = serial((opB, b), (opA, a))
    ab = And(vals_eq(final, list(odAB)), res_eq(rA, oA1), res_eq(rB, oB1))
    ba = And(vals_eq(final, list(odBA)), res_eq(rA, oA2), res_eq(rB, oB2))
    x.add('C11,C05', 'overlapping Deque operations: contents and results are those of one serial order (every item that maxlen does not discard survives exactly once)', Or(ab, ba))
    return x.result()


@directive_aware
def ob_index_pair(w, P):
    """A: Index.popitem / setdefault / __setitem__ overlapping B: __setitem__ / __delitem__ / popitem on shared keys"""
    x, contents = index_scn(w, P)
    L = w.L
    N = P['N']
    opA, opB = P['a'], P['b']
    ixA = L.persistent.Index.fromcache(x.c)
    other = w.clone_handle(x.c)
    ixB = L.persistent.Index.fromcache(other)
    k = pick_int(x, 'key', 0, N + 1)
    a = x.s.v_int('valA', -2 ** 30, 2 ** 30)
    b = x.s.v_int('valB', -2 ** 30, 2 ** 30)
    res = {}

    def run(ix, op, v):
        try:
            if op == 'popitem':
                return ('ok', ix.popitem())
            if op == 'popitem_first':
                return ('ok', ix.popitem(last=False))
            if op == 'setitem':
                return ('ok', ix.__setitem__(k, v))
            if op == 'delitem':
                return ('ok', ix.__delitem__(k))
            if op == 'setdefault':
                return ('ok', ix.setdefault(k, v))
            if op == 'getitem':
                return ('ok', ix[k])
            if op == 'pop':
                return ('ok', ix.pop(k))
        except KeyError:
            return ('exc', KeyError)
        raise ValueError(op)

    def intruder():
        w.tid, old = 2, w.tid
        try:
            res['B'] = run(ixB, opB, b)
        finally:
            w.tid = old
    if P.get('il'):
        box = {}
        w.preconnect(other, (w.pid, 2))
        x.begin()
        w.interleave(lambda: box.__setitem__('A', run(ixA, opA, a)), lambda: res.__setitem__('B', run(ixB, opB, b)),
                     x.s.v_int('at', 0, P.get('max_events', 12)), x.s.v_int('at2', 0, P.get('max_events', 12)), id_a=(w.pid, 1), id_b=(w.pid, 2))
        rA = box['A']
    else:
        _interleave(x, w, P.get('max_events', 30), intruder)
        x.begin()
        rA = run(ixA, opA, a)
    x.end()
    final = list(ixA.items())
    if 'B' not in res:
        return x.result()
    flag('interleaved')
    rB = res['B']

    def res_eq(r, o):
        if r[0] != o[0]:
            return False
        return True if r[0] == 'exc' else vals_eq(r[1], o[1])

    def serial(first, second):
        od = collections.OrderedDict(contents)
        outs = []
        for (op, v) in (first, second):
            outs.append(run(_OD(od), op, v))
        return od, outs

    class _OD:
        def __init__(self, od):
            self.od = od

        def popitem(self, last=True):
            return self.od.popitem(last=last)

        def __setitem__(self, kk, v):
            self.od[kk] = v

        def __delitem__(self, kk):
            del self.od[kk]

        def setdefault(self, kk, v):
            return self.od.setdefault(kk, v)

        def __getitem__(self, kk):
            return self.od[kk]

        def pop(self, kk):
            return self.od.pop(kk)
    odAB, (oA1, oB1) = serial((opA, a), (opB, b))
    odBA, (oB2, oA2) = serial((opB, b), (opA, a))
    ab = And(vals_eq(final, list(odAB.items())), res_eq(rA, oA1), res_eq(rB, oB1))
    ba = And(vals_eq(final, list(odBA.items())), res_eq(rA, oA2), res_eq(rB, oB2))
    x.add('C12,C05', 'overlapping Index operations are atomic: results and final items are those of one serial order', Or(ab, ba))
    return x.result()


@directive_aware
def ob_persist_kill(w, P):
    """C07 for the persistent types: the process is killed at a symbolic event inside Deque.append / appendleft (bounded,
    full), Deque.popleft, Index.popitem / setdefault / __setitem__: the recovered structure is the one before or the one
    after the interrupted call, and a bounded Deque never holds more than maxlen items"""
    from obligations.cache_ops import Outcome
    L = w.L
    kind = P['kind']
    mode = P.get('mode', 'crash')
    P = dict(P, **{mode: True})
    if mode == 'fault':
        P['only_fault'] = True
    if kind.startswith('deque'):
        x, contents = deque_scn(w, P)
        x.P = P
        op = kind.split('.')[1]
        bounded = op in ('append', 'appendleft')
        maxlen = len(contents) if bounded else None
        if bounded and maxlen == 0:
            assume(False)
        dq = L.persistent.Deque.fromcache(x.c, maxlen=maxlen)
        v = x.s.v_int('val', -2 ** 40, 2 ** 40) if not P.get('files') else b'new-file-value'
        od = collections.deque(contents, maxlen)
        before = list(od)
        try:
            getattr(od, op)(v) if bounded else getattr(od, op)()
        except IndexError:
            pass
        after = list(od)

        def action():
            try:
                return getattr(dq, op)(v) if bounded else getattr(dq, op)()
            except IndexError:
                return None
        try:
            x.call(action)
        except Outcome as o:
            rec = list(L.persistent.Deque.fromcache(w.clone_handle(x.c), maxlen=None))
            # (the generic clause about items the call does not address needs the keys the call addresses; here the structure-level clause below says it all)
            cl = [c_ for c_ in o.clauses if 'not addressed by the interrupted call' not in c_[1]]
            cl.append(('C07,C08,C11', 'after a kill / failed call a bounded Deque holds at most maxlen items', maxlen is None or len(rec) <= maxlen))
            if P.get('files'):
                # file-backed items: the generic clauses demand every committed row's value file; here only the shape
                cl.append(('C07,C08,C11', 'after a kill / failed call the Deque has the length it had before or after the interrupted call', len(rec) in (len(before), len(after))))
            else:
                cl.append(('C07,C08,C11', 'after a kill / failed call the Deque is the one before or the one after the interrupted call', Or(vals_eq(rec, before), vals_eq(rec, after))))
            raise Outcome(cl)
        return x.result()
    x, contents = index_scn(w, P)
    x.P = P
    op = kind.split('.')[1]
    ix = L.persistent.Index.fromcache(x.c)
    k = pick_int(x, 'key', 0, P['N'] + 1)
    v = x.s.v_int('val', -2 ** 40, 2 ** 40)
    od = collections.OrderedDict(contents)
    before = list(od.items())
    try:
        if op == 'popitem':
            od.popitem()
        elif op == 'setdefault':
            od.setdefault(k, v)
        elif op == 'setitem':
            od[k] = v
        elif op == 'pop':
            od.pop(k)
    except KeyError:
        pass
    after = list(od.items())

    def action():
        try:
            if op == 'popitem':
                return ix.popitem()
            if op == 'setdefault':
                return ix.setdefault(k, v)
            if op == 'setitem':
                return ix.__setitem__(k, v)
            if op == 'pop':
                return ix.pop(k)
        except KeyError:
            return None
    try:
        x.call(action)
    except Outcome as o:
        rec = list(L.persistent.Index.fromcache(w.clone_handle(x.c)).items())
        cl = [c_ for c_ in o.clauses if 'not addressed by the interrupted call' not in c_[1]]
        cl.append(('C07,C08,C12', 'after a kill / failed call the Index is the one before or the one after the interrupted call', Or(vals_eq(rec, before), vals_eq(rec, after))))
        raise Outcome(cl)
    return x.result()


def pair_jobs(tier):
    out = []
    N = 2
    for a, b, bounded in [('append', 'appendleft', True), ('appendleft', 'append', True), ('append', 'append', True), ('append', 'popleft', False), ('pop', 'popleft', False),
                          ('popleft', 'popleft', False), ('append', 'pop', True)]:
        out.append(dict(id='deque.pair.%s.%s.%s' % (a, b, 'bounded' if bounded else 'unbounded'), func='ob_deque_pair', params=dict(N=N, a=a, b=b, bounded=bounded, policy='none'),
                        tags=['C11', 'C05', 'C10'], functions=DEQUE_F, weight=30, must_reach=['interleaved']))
    for a, b, bounded in [('append', 'appendleft', True), ('append', 'pop', True), ('pop', 'popleft', False), ('append', 'popleft', False)]:
        out.append(dict(id='deque.pair_il.%s.%s.%s' % (a, b, 'bounded' if bounded else 'unbounded'), func='ob_deque_pair', params=dict(N=N, a=a, b=b, bounded=bounded, policy='none', il=True, max_events=10),
                        tags=['C11', 'C05', 'C10'], functions=DEQUE_F, weight=30, must_reach=['both_suspended']))
    for a, b in [('popitem', 'setitem'), ('setdefault', 'delitem'), ('pop', 'setitem'), ('setitem', 'popitem')]:
        out.append(dict(id='index.pair_il.%s.%s' % (a, b), func='ob_index_pair', params=dict(N=1, a=a, b=b, policy='none', il=True, max_events=7), tags=['C12', 'C05'], functions=INDEX_F, weight=30,
                        must_reach=['both_suspended']))
    for a, b in [('popitem', 'setitem'), ('popitem', 'delitem'), ('popitem', 'popitem'), ('setdefault', 'setitem'), ('setdefault', 'delitem'), ('setitem', 'popitem'),
                 ('pop', 'setitem'), ('popitem_first', 'setitem'), ('getitem', 'setitem'), ('getitem', 'delitem')]:
        out.append(dict(id='index.pair.%s.%s' % (a, b), func='ob_index_pair', params=dict(N=N, a=a, b=b, policy='none'), tags=['C12', 'C05'], functions=INDEX_F, weight=30,
                        must_reach=['interleaved']))
    return out


def kill_jobs(tier):
    out = []
    for kind in ('deque.append', 'deque.appendleft', 'deque.popleft', 'deque.pop', 'index.popitem', 'index.setdefault', 'index.setitem', 'index.pop'):
        out.append(dict(id='kill.%s' % kind, func='ob_persist_kill', params=dict(N=2, kind=kind, policy='none'), tags=['C07', 'C11', 'C12'], functions=DEQUE_F + INDEX_F, weight=40,
                        must_reach=['crashed']))
    for kind in ('deque.append', 'deque.appendleft', 'deque.popleft', 'index.setdefault', 'index.popitem', 'index.setitem'):
        out.append(dict(id='fault.%s' % kind, func='ob_persist_kill', params=dict(N=2, kind=kind, policy='none', mode='fault'), tags=['C08', 'C11', 'C12'], functions=DEQUE_F + INDEX_F, weight=30,
                        must_reach=['fault_escaped'], all_clauses=True))
    for kind in ('deque.append', 'deque.appendleft', 'deque.popleft'):
        out.append(dict(id='fault.%s.files' % kind, func='ob_persist_kill', params=dict(N=2, kind=kind, policy='none', mode='fault', files=True), tags=['C08', 'C11'], functions=DEQUE_F, weight=30,
                        must_reach=['fault_escaped'], all_clauses=True))
    for kind in ('deque.append', 'deque.appendleft', 'deque.popleft'):
        out.append(dict(id='kill.%s.files' % kind, func='ob_persist_kill', params=dict(N=2, kind=kind, policy='none', files=True), tags=['C07', 'C11'], functions=DEQUE_F, weight=40,
                        must_reach=['crashed']))
    return out


_jobs_seq = jobs


def jobs(tier):
    return _jobs_seq(tier) + pair_jobs(tier) + kill_jobs(tier)


@directive_aware
def ob_index_lookup_replace(w, P):
    """a key that is present in every committed state during the call must be found: A looks the key up while B
    replaces its file-backed value"""
    if 'index-lookup-replace-race' in P.get('exclude', []):
        # the whole obligation lies inside the region of the known finding
        flag('nontrivial')
        return [('C12', 'excluded: known finding index-lookup-replace-race', True)]
    x = Ctx(w, P, kinds=('file',), tags=False, key_lo=0, key_hi=1, min_file_size=0, alive_sym=False, cull_limit=0)
    for rv in x.s.rowvars:
        assume(rv['expire_null'].z)
    L = w.L
    ixA = L.persistent.Index.fromcache(x.c)
    other = w.clone_handle(x.c)
    ixB = L.persistent.Index.fromcache(other)
    k = int(x.s.rowvars[0]['key'])
    res = {}

    def intruder():
        w.tid, old = 2, w.tid
        try:
            ixB[k] = b'xyzw'
            res['B'] = True
        finally:
            w.tid = old
    _interleave(x, w, 12, intruder)
    x.begin()
    try:
        rA = ('ok', ixA[k])
    except KeyError:
        rA = ('exc', KeyError)
    x.end()
    old = x.T0.lookup(Cell(INT, k), Cell(INT, 1))
    if rA[0] == 'exc':
        x.add('C12', 'a key that is continuously present is always found (lookup overlapping a replacement)', False)
    else:
        v = rA[1]
        x.add('C12,C05', 'the lookup returns the old or the new value, never a mixture', Or(x.value_matches(v, old), isinstance(v, bytes) and v == b'xyzw'))
    return x.result()


_jobs2 = jobs


def jobs(tier):
    out = _jobs2(tier)
    out.append(dict(id='index.lookup_during_replace', func='ob_index_lookup_replace', params=dict(N=1, policy='none'), tags=['C12'], functions=INDEX_F + ['core.Cache.get'],
                    weight=5))
    return out


@directive_aware
def ob_index_busy_lookup(w, P):
    """an Index whose cache records statistics (every lookup then needs the write lock) while that lock is busy for the first k
    attempts: lookups wait and behave like a dictionary -- a present key is found, no Timeout, no KeyError"""
    x = Ctx(w, P, kinds=('int',), tags=False, key_lo=0, key_hi=2, alive_sym=False, statistics=True, cull_limit=0)
    for rv in x.s.rowvars:
        assume(rv['expire_null'].z)
    L = w.L
    ix = L.persistent.Index.fromcache(x.c)
    k = int(x.s.rowvars[0]['key'])
    v = x.s.rowvars[0]['value']
    kk = x.s.v_int('busy_k', 1, 2)
    cnt = [0]

    def hook(con):
        cnt[0] += 1
        flag('lock_busy')
        return bool(kk >= cnt[0])
    w.set_busy_hook(x.c, hook)
    how = P['how']
    x.begin()
    try:
        if how == 'getitem':
            r = ('ok', ix[k])
        elif how == 'get':
            r = ('ok', ix.get(k, -7))
        elif how == 'contains':
            r = ('ok', k in ix)
        elif how == 'eq':
            r = ('ok', ix == {k: v})
        elif how == 'items':
            r = ('ok', list(ix.items()))
    except KeyError:
        r = ('keyerror', None)
    except L.core.Timeout:
        r = ('timeout', None)
    x.end()
    if how in ('getitem', 'get'):
        ok = r[0] == 'ok' and is_num_like(r[1]) and EqR(zv(r[1]), zv(v))
    elif how == 'contains':
        ok = r == ('ok', True)
    elif how == 'eq':
        ok = r[0] == 'ok' and bool(r[1]) is True
    else:
        ok = r[0] == 'ok' and len(r[1]) == 1 and EqR(zv(r[1][0][1]), zv(v))
    x.add('C12,C14', 'an Index lookup that meets a busy write lock waits and finds the key (%s)' % r[0], ok)
    return x.result()


# ------------------------------------------------------------------ transaction blocks of the persistent types (C06 through C11 / C12)

class _Boom(Exception):
    pass


def _apply_deque(d, op, v):
    if op in ('append', 'appendleft'):
        return getattr(d, op)(v)
    return getattr(d, op)()


def _apply_index(d, op, k, v):
    if op == 'setitem':
        d[k] = v
    elif op == 'delitem':
        del d[k]
    elif op == 'pop':
        return d.pop(k)
    elif op == 'popitem':
        return d.popitem()
    elif op == 'setdefault':
        return d.setdefault(k, v)
    elif op == 'incr':  # the documented idiom: mapping[k] = mapping.get(k, 0) + v
        d[k] = d.get(k, 0) + v
    else:
        raise ValueError(op)


@directive_aware
def ob_persist_block(w, P):
    """`with deque.transact():` / `with index.transact():` around two real operations; the block raises after a
    symbolic number of them, completes, or (crash=True) the process is killed at a symbolic event inside it.  The
    structure afterwards is the one before the block (abort, kill before COMMIT) or the one the reference type
    reaches by running the whole block (completion, kill after COMMIT) -- never a part of the block."""
    from obligations.cache_ops import Outcome
    L = w.L
    kind = P['kind']
    ops = P['ops'].split('+')
    P = dict(P)
    if kind == 'deque':
        x, contents = deque_scn(w, P)
        real = L.persistent.Deque.fromcache(x.c)
        ref = collections.deque(contents)
        dump = lambda d: list(d)
        recovered = lambda: list(L.persistent.Deque.fromcache(w.clone_handle(x.c)))
        ks = [None] * len(ops)
    else:
        x, contents = index_scn(w, P)
        real = L.persistent.Index.fromcache(x.c)
        ref = collections.OrderedDict(contents)
        dump = lambda d: list(d.items())
        recovered = lambda: list(L.persistent.Index.fromcache(w.clone_handle(x.c)).items())
        ks = [pick_int(x, 'key%d' % i, 0, P['N'] + 1) for i in range(len(ops))]
    x.P = P
    if P.get('prelude'):
        # an ordinary committed write of a file-backed value through the same object before the block: what the object
        # remembers about it must not leak into the block's own transaction (e.g. be removed when the block rolls back)
        norm = lambda v_: v_ if is_num_like(v_) else 'FILE'
        if kind == 'deque':
            real.append(b'prelude-value')
            ref.append(b'prelude-value')
            dump = lambda d: [norm(e) for e in d]
        else:
            real[P['N'] + 3] = b'prelude-value'
            ref[P['N'] + 3] = b'prelude-value'
            dump = lambda d: [(k_, norm(v_)) for k_, v_ in d.items()]
        x.T0 = x.s.snapshot()
        flag('prelude')
    vs = [x.s.v_int('val%d' % i, -2 ** 30, 2 ** 30) for i in range(len(ops))]
    raise_at = len(ops) if P.get('crash') else pick_int(x, 'raise_at', 0, len(ops))  # == len(ops): the block completes
    before = dump(ref)

    def run_block(d, with_txn):
        def inner():
            for i, op in enumerate(ops):
                if raise_at == i:
                    raise _Boom()
                if kind == 'deque':
                    _apply_deque(d, op, vs[i])
                else:
                    _apply_index(d, op, ks[i], vs[i])
        if with_txn:
            with d.transact():
                inner()
        else:
            inner()
    try:
        run_block(ref, False)
        ref_raised = None
    except (_Boom, IndexError, KeyError) as e:
        ref_raised = type(e)
    after = dump(ref) if ref_raised is None else before
    tag = 'C06,C11' if kind == 'deque' else 'C06,C12'
    if P.get('crash'):
        def action():
            try:
                run_block(real, True)
            except (_Boom, IndexError, KeyError):
                pass
        try:
            x.call(action)
        except Outcome as o:
            rec = recovered()
            # (the generic clause about items the call does not address needs the keys the call addresses; here the structure-level clause below says it all)
            cl = [c_ for c_ in o.clauses if 'not addressed by the interrupted call' not in c_[1]]
            cl.append(('C07,' + tag, 'a %s transaction block interrupted by a kill took effect completely or not at all' % kind, Or(vals_eq(rec, before), vals_eq(rec, after))))
            raise Outcome(cl)
        return x.result()
    x.begin()
    try:
        run_block(real, True)
        raised = None
    except (_Boom, IndexError, KeyError) as e:
        raised = type(e)
    x.end()
    x.add(tag, 'the block raises what the same operations raise on the reference type', raised is ref_raised)
    flag('block_raised' if raised else 'block_committed')
    x.add(tag, 'a block that raised leaves the %s exactly as before; a block that completed leaves what the reference type holds' % kind, vals_eq(dump(real), after))
    x.add(tag, 'the transaction is closed when the block exits', x.c._txn_id is None)
    log = [d for (_, k_, d) in w.log if k_ == 'sql']
    x.add(tag, 'one database transaction per block', sum(1 for d in log if d.startswith('BEGIN')) == 1 and sum(1 for d in log if d.startswith(('COMMIT', 'ROLLBACK'))) == 1)
    x.add(tag + ',C08', 'counters match', state.inv_table(x.T1))
    if P.get('prelude'):
        x.add(tag + ',C08', 'every item still has its value file and no file is left over', x.s.fs_inv(x.T1))
    return x.result()


PERSIST_BLOCKS = [('deque', 'pop+appendleft'), ('deque', 'popleft+append'), ('deque', 'append+append'), ('deque', 'popleft+popleft'),
                  ('index', 'incr+incr'), ('index', 'pop+setitem'), ('index', 'setitem+delitem'), ('index', 'popitem+setdefault')]

_jobs3 = jobs


def jobs(tier):
    out = _jobs3(tier)
    for how in ('getitem', 'get', 'contains', 'eq', 'items'):
        out.append(dict(id='index.busy.%s' % how, func='ob_index_busy_lookup', params=dict(N=1, how=how, policy='none'), tags=['C12', 'C14'], functions=INDEX_F + ['core.Cache.get', 'core.Cache.__getitem__'],
                        weight=3, must_reach=['lock_busy'] if how in ('getitem', 'get', 'eq', 'items') else []))
    for kind, ops in PERSIST_BLOCKS:
        for N in ({'deque': [2], 'index': [1]} if tier == 'quick' else {'deque': [2, 3], 'index': [1, 2]})[kind]:
            t = 'C11' if kind == 'deque' else 'C12'
            out.append(dict(id='%s.block.%s.N=%d' % (kind, ops, N), func='ob_persist_block', params=dict(N=N, kind=kind, ops=ops, policy='none'), tags=['C06', t, 'C08'],
                            functions=(DEQUE_F if kind == 'deque' else INDEX_F) + ['persistent.Deque.transact', 'persistent.Index.transact', 'core.Cache.transact', 'core.Cache._transact'],
                            weight=N * 4, must_reach=['block_raised', 'block_committed']))
    for kind, ops in (('deque', 'pop+appendleft'), ('deque', 'append+popleft'), ('index', 'pop+setitem'), ('index', 'popitem+setdefault'), ('index', 'delitem+setitem')):
        t = 'C11' if kind == 'deque' else 'C12'
        out.append(dict(id='%s.block.prelude.%s' % (kind, ops), func='ob_persist_block', params=dict(N=1, kind=kind, ops=ops, policy='none', prelude=True), tags=['C06', t, 'C08'],
                        functions=(DEQUE_F if kind == 'deque' else INDEX_F) + ['core.Cache._transact'], weight=8, must_reach=['block_raised', 'prelude']))
    for kind, ops in PERSIST_BLOCKS:
        t = 'C11' if kind == 'deque' else 'C12'
        out.append(dict(id='%s.block.kill.%s' % (kind, ops), func='ob_persist_block', params=dict(N=2 if kind == 'deque' or tier != 'quick' else 1, kind=kind, ops=ops, policy='none', crash=True), tags=['C07', 'C06', t],
                        functions=(DEQUE_F if kind == 'deque' else INDEX_F) + ['persistent.Deque.transact', 'persistent.Index.transact', 'core.Cache._transact'],
                        weight=60, must_reach=['crashed']))
    return out
