"""C15 (Lock / RLock / BoundedSemaphore / barrier) and C20 (Averager, throttle).

Locks: contender A runs a small program of acquire / release calls with an explicit critical-section event;
contender B (own Cache handle, own pid-tid) runs acquire..release as one nested block at a symbolic event boundary
of A (every SQL statement, sleep and the critical section itself), optionally contender C nested inside B.
A witness counts holders between a returned acquire and the matching release."""
import z3

from symdc import sx, env, zpath
from symdc.sx import And, Or, Not, Implies, EqI, EqR, LeR, LtR, AndL, OrL
from symdc.zpath import I, R, B, assume, flag, PathEnd, Ctx as ZCtx
from obligations.cache_ops import zv, is_num_like


class Witness:
    def __init__(self, cap):
        self.cap = cap
        self.holders = []
        self.max_seen = 0
        self.bad = []

    def enter(self, who):
        self.holders.append(who)
        self.max_seen = max(self.max_seen, len(self.holders))
        if len(set(self.holders)) > self.cap:
            self.bad.append(list(self.holders))

    def leave(self, who):
        self.holders.remove(who)


def make_lock(L, kind, cache, value):
    if kind == 'lock':
        return L.recipes.Lock(cache, 'the-lock')
    if kind == 'rlock':
        return L.recipes.RLock(cache, 'the-lock')
    return L.recipes.BoundedSemaphore(cache, 'the-lock', value=value)


def ob_lock(w, P):
    L = w.L
    kind = P['kind']
    value = P.get('value', 1)
    cap = value if kind == 'sem' else 1
    prog = P.get('prog', 'acq,cs,rel').split(',')
    w.clock_fn = lambda: 1000.0
    sharded = P.get('fanout', False)
    if sharded:
        cA = L.fanout.FanoutCache(w.dir, shards=2, eviction_policy='none')
    else:
        cA = w.new_cache(None, eviction_policy='none')
        cA._con
    clients = {'A': (100, 1, cA)}
    if P.get('same_object'):
        clients['B'] = (100, 2, cA)
        clients['C'] = (100, 3, cA)
    else:
        def handle():
            if sharded:
                return L.fanout.FanoutCache(w.dir, shards=2, eviction_policy='none')
            return w.clone_handle(cA)
        clients['B'] = (200, 1, handle())
        clients['C'] = (300, 1, handle())
    locks = {n: make_lock(L, kind, c, value) for n, (pid, tid, c) in clients.items()}
    wit = Witness(cap)
    cl = []
    outcome = {}

    def as_client(name, fn):
        pid, tid, _ = clients[name]
        old = (w.pid, w.tid)
        w.pid, w.tid = pid, tid
        try:
            return fn()
        finally:
            w.pid, w.tid = old

    def block(name, inner_event=False):
        """acquire .. release of another contender as one nested block"""
        def run():
            lk = locks[name]
            lk.acquire()
            wit.enter(name)
            outcome[name] = 'held'
            flag('intruder_acquired')
            if inner_event:
                w.event('cs', 'critical section of %s' % name)
            wit.leave(name)
            lk.release()
            outcome[name] = 'released'
        try:
            as_client(name, run)
        except env.Spin:
            # still waiting for the lock: a legal prefix of the schedule -- the path is abandoned
            raise
    def grab(name):
        """acquire and keep holding"""
        def run():
            locks[name].acquire()
            wit.enter(name)
            outcome[name] = 'held'
            flag('intruder_acquired')
        as_client(name, run)
    at = w.int('at', 0, P.get('max_events', 40))
    w.interfere_at = at
    if P.get('hold'):
        w.interfere_hook = lambda: grab('B')
    else:
        w.interfere_hook = lambda: block('B', inner_event=P.get('three', False))
    if P.get('three'):
        w.interfere2_at = w.int('at2', 0, 20)
        w.interfere2_hook = lambda: block('C')
    w.max_sleeps = 3
    w.start_events()
    lkA = locks['A']
    held = 0
    refused = 0
    try:
        for step in prog:
            if step == 'acq':
                lkA.acquire()
                held += 1
                if held == 1:
                    wit.enter('A')
            elif step == 'rel':
                if held == 1:
                    wit.leave('A')
                lkA.release()
                held -= 1
            elif step == 'badrel':
                # releasing what is not held must be refused and change nothing
                try:
                    lkA.release()
                    if kind != 'lock':
                        cl.append(('C15', 'releasing an un-held %s is refused' % kind, False))
                except AssertionError:
                    refused += 1
            elif step == 'cs':
                w.event('cs', 'critical section of A')
    except env.Spin:
        raise
    w.stop_events()
    cl.append(('C15', 'never more holders than the capacity (%d) between acquire and release' % cap, not wit.bad))
    if 'badrel' in prog and kind != 'lock':
        cl.append(('C15', 'the refused release raised', refused == prog.count('badrel')))
    if P.get('hold'):
        # B may still hold; further contenders now try to acquire one after the other (no nesting): whoever gets in
        # is counted by the witness; a contender that would have to wait is simply not admitted
        w.interfere_at = None
        w.soft_block = True
        for name in ('C', 'D'):
            if name not in clients:
                clients[name] = (400, 1, handle()) if not P.get('same_object') else (100, 4, cA)
                locks[name] = make_lock(L, kind, clients[name][2], value)
            try:
                grab(name)
            except env.WouldBlock:
                outcome[name] = 'blocked'
        cl.append(('C15', 'never more holders than the capacity (%d), also when a contender acquired during a release' % cap, not wit.bad))
        flag('nontrivial')
        return cl
    # afterwards the lock is free again: a waiter succeeds
    w.interfere_at = None
    try:
        as_client('B', lambda: (locks['B'].acquire(), locks['B'].release()))
        cl.append(('C15', 'after the last release a waiting contender acquires', True))
    except env.Spin:
        cl.append(('C15', 'after the last release a waiting contender acquires', False))
    flag('nontrivial')
    return cl


def ob_barrier(w, P):
    L = w.L
    w.clock_fn = lambda: 1000.0
    cA = w.new_cache(None, eviction_policy='none')
    cA._con
    cB = w.clone_handle(cA)
    wit = Witness(1)
    cl = []

    def mk(cache, who):
        @L.recipes.barrier(cache, L.recipes.Lock, name='work')
        def work():
            wit.enter(who)
            w.event('cs', 'body of %s' % who)
            wit.leave(who)
            return who
        return work
    fa, fb = mk(cA, 'A'), mk(cB, 'B')

    def intruder():
        old = (w.pid, w.tid)
        w.pid, w.tid = 200, 1
        try:
            fb()
            flag('intruder_acquired')
        finally:
            w.pid, w.tid = old
    w.interfere_at = w.int('at', 0, 30)
    w.interfere_hook = intruder
    w.max_sleeps = 3
    w.start_events()
    r = fa()
    w.stop_events()
    cl.append(('C15', 'barrier-wrapped functions run one at a time', not wit.bad))
    cl.append(('C15', 'the wrapped function result is returned', r == 'A'))
    flag('nontrivial')
    return cl


# ------------------------------------------------------------------ C20

def ob_averager(w, P):
    """adds / pops of two clients: the stored pair is (sum, number of completed adds since the last pop)"""
    L = w.L
    w.clock_fn = lambda: 1000.0
    # with il: every value lives in a file, so a replacing call goes on after its COMMIT (removal of the old file)
    cA = w.new_cache(None, eviction_policy='none', **({'disk_min_file_size': 0} if P.get('il') else {}))
    cA._con
    cB = w.clone_handle(cA)
    avA, avB = L.recipes.Averager(cA, 'lat'), L.recipes.Averager(cB, 'lat')
    pre = P.get('pre', [2.0])
    for v in pre:
        avA.add(v)
    opA, opB = P['a'], P['b']
    xa, xb = P.get('xa', 8.0), P.get('xb', 32.0)
    res = {}

    def do(av, op, x):
        if op == 'add':
            return av.add(x)
        if op == 'pop':
            return av.pop()
        return av.get()

    def intruder():
        old = (w.pid, w.tid)
        w.pid, w.tid = 200, 1
        try:
            res['B'] = do(avB, opB, xb)
        finally:
            w.pid, w.tid = old
    if P.get('il'):
        # both calls suspended part-way (two threads sharing one object, or two processes)
        if P.get('same_object'):
            avB = L.recipes.Averager(cA, 'lat')
        box = {}

        def run_a():
            box['A'] = do(avA, opA, xa)

        def run_b():
            res['B'] = do(avB, opB, xb)
        w.preconnect(cA if P.get('same_object') else cB, (100, 2) if P.get('same_object') else (200, 1))
        w.start_events()
        il = w.interleave(run_a, run_b, w.int('at', 0, 16), w.int('at2', 0, 16), id_a=(100, 1), id_b=(100, 2) if P.get('same_object') else (200, 1))
        w.stop_events()
        rA = box['A']
    else:
        w.interfere_at = w.int('at', 0, 30)
        w.interfere_hook = intruder
        w.start_events()
        rA = do(avA, opA, xa)
        w.stop_events()
    final = cA.get('lat', default=(0.0, 0))
    cl = []

    def serial(first, second):
        tot, cnt = float(sum(pre)), len(pre)
        outs = []
        for op, x in (first, second):
            if op == 'add':
                tot, cnt = tot + x, cnt + 1
                outs.append(None)
            elif op == 'pop':
                outs.append(None if cnt == 0 else tot / cnt)
                tot, cnt = 0.0, 0
            else:
                outs.append(None if cnt == 0 else tot / cnt)
        return (tot, cnt), outs
    if 'B' not in res:
        (t, c), (oa, _) = serial((opA, xa), ('get', 0))
        cl.append(('C20', 'uninterrupted Averager call', tuple(final) == (t, c) and rA == oa))
    else:
        flag('interleaved')
        rB = res['B']
        f1, (a1, b1) = serial((opA, xa), (opB, xb))
        f2, (b2, a2) = serial((opB, xb), (opA, xa))
        ok = (tuple(final) == f1 and rA == a1 and rB == b1) or (tuple(final) == f2 and rA == a2 and rB == b2)
        cl.append(('C20,C05', 'every add is counted exactly once: total and count are those of a serial order', ok))
    flag('nontrivial')
    return cl


class StubCache:
    """dict-backed stand-in for the cache used by throttle (its use of transact/get/set is what runs for real)"""

    def __init__(self):
        self.d = {}
        self.in_txn = 0

    def set(self, key, value, expire=None, tag=None, retry=False):
        self.d[key] = value
        return True

    def get(self, key, default=None):
        return self.d.get(key, default)

    def transact(self, retry=False):
        import contextlib

        @contextlib.contextmanager
        def cm():
            self.in_txn += 1
            try:
                yield
            finally:
                self.in_txn -= 1
        return cm()


def ob_throttle_names(w, P):
    """name=None: the bucket key is derived from the function.  Two different functions that share their __name__ (methods of two
    classes, helpers of two outer functions) throttled on one cache each get their own bucket: calls of one do not use up the
    allowance of the other"""
    L = w.L
    sx.REAL_MODE = True
    try:
        clk = {'t': R(z3.RealVal(0))}
        slept = []

        def tf():
            return clk['t']

        def sf(d):
            slept.append(d)
            if len(slept) > 4:
                raise NoProgress()
            clk['t'] = clk['t'] + d
        cache = StubCache()
        ran = []

        class Alpha:
            @staticmethod
            def poll():
                ran.append('alpha')

        class Beta:
            @staticmethod
            def poll():
                ran.append('beta')

        def outer1():
            def helper():
                ran.append('h1')
            return helper

        def outer2():
            def helper():
                ran.append('h2')
            return helper
        pairs = {'methods': (Alpha.poll, Beta.poll), 'helpers': (outer1(), outer2())}[P['which']]
        gap = w.real('gap', 0, None)
        fa = L.recipes.throttle(cache, 1, 1, time_func=tf, sleep_func=sf)(pairs[0])
        clk['t'] = clk['t'] + gap
        fb = L.recipes.throttle(cache, 1, 1, time_func=tf, sleep_func=sf)(pairs[1])
        cl = [('C20,C16', 'two functions of the same __name__ get two buckets', len(cache.d) == 2)]
        fa()
        n0 = len(slept)
        fb()   # its own bucket is full: it starts at once
        cl.append(('C20', "a call of one function does not use up the other function's allowance", len(slept) == n0 and len(ran) == 2))
        flag('nontrivial')
        return cl
    finally:
        sx.REAL_MODE = False


def ob_throttle(w, P):
    """K calls of a throttled function arriving after arbitrary real-valued gaps under a virtual clock:
    for all i <= j:  j - i + 1 <= count + (count / seconds) * (t_j - t_i);  every call starts after <= 2K sleeps"""
    L = w.L
    K, count, seconds = P['K'], P['count'], P['seconds']
    sx.REAL_MODE = True
    try:
        gaps = [w.real('gap%d' % i, 0, None) for i in range(K)]
        clk = {'t': R(z3.RealVal(0))}
        starts = []
        sleeps = [0]

        def tf():
            return clk['t']

        def sf(d):
            sleeps[0] += 1
            if sleeps[0] > 2 * K:
                flag('sleep_bound')
                raise NoProgress()
            clk['t'] = clk['t'] + d
        cache = StubCache()
        callers = P.get('callers', 1)
        fs = []
        for c in range(callers):
            @L.recipes.throttle(cache, count, seconds, name='f', time_func=tf, sleep_func=sf)
            def f():
                starts.append(clk['t'])
            fs.append(f)
        cl = []
        try:
            for i, g in enumerate(gaps):
                clk['t'] = clk['t'] + g
                fs[i % callers]()
            progress = True
        except NoProgress:
            progress = False
        cl.append(('C20', 'every call is eventually let through (within 2K sleeps)', progress))
        rate = z3.RealVal(count) / z3.RealVal(seconds)
        conj = []
        for i in range(len(starts)):
            for j in range(i, len(starts)):
                conj.append((j - i + 1) <= count + rate * (sx.zR(starts[j].z) - sx.zR(starts[i].z)))
        cl.append(('C20', 'in every window at most count + rate * elapsed calls start', z3.And(conj) if conj else True))
        cl.append(('C20', 'the bucket is updated inside a transaction', cache.in_txn == 0))
        flag('nontrivial')
        return cl
    finally:
        sx.REAL_MODE = False


class NoProgress(Exception):
    pass


def ob_lock_busy_release(w, P):
    """the holder releases while the write lock of the cache (the key's shard) is busy for the first k attempts -- another
    client is in the middle of a transaction: release() waits and, once it has returned, the resource really is free (the
    next acquirer gets it at its first attempt); acquire() under the same conditions waits and then holds"""
    L = w.L
    kind, value = P['kind'], P.get('value', 1)
    w.clock_fn = lambda: 1000.0
    sharded = P.get('fanout', False)
    if sharded:
        c = L.fanout.FanoutCache(w.dir, shards=2, eviction_policy='none')
        c2 = L.fanout.FanoutCache(w.dir, shards=2, eviction_policy='none')
        shards = list(c._shards)
    else:
        c = w.new_cache(None, eviction_policy='none')
        c._con
        c2 = w.clone_handle(c)
        shards = [c]
    lk = make_lock(L, kind, c, value)
    other = make_lock(L, kind, c2, value)
    kk = w.int('busy_k', 1, 2)
    cnt = [0]
    armed = [False]

    def hook(con):
        if not armed[0]:
            return False
        cnt[0] += 1
        flag('lock_busy')
        return bool(kk >= cnt[0])
    for sh in shards:
        w.set_busy_hook(sh, hook)
    cl = []
    when = P.get('when', 'release')
    w.start_events()
    if when == 'acquire':
        armed[0] = True
    lk.acquire()
    armed[0] = False
    if when == 'acquire':
        cl.append(('C15', 'acquire waited for the busy cache lock and then holds the resource', cnt[0] > 0))
    if when == 'release':
        armed[0] = True
    lk.release()
    armed[0] = False
    w.stop_events()
    if when == 'release':
        cl.append(('C15', 'the cache lock really was busy during release', cnt[0] > 0))
    # the resource is free again: another client acquires at its first attempt (no sleep)
    w.pid, old = 200, w.pid
    try:
        try:
            w.soft_block = True
            other.acquire()
            got = True
        except (env.WouldBlock, env.Spin):
            got = False
    finally:
        w.pid = old
        w.soft_block = False
    cl.append(('C15', 'once release() has returned the resource is free: the next acquirer gets it at once', got))
    flag('nontrivial')
    return cl

def ob_lock_il(w, P):
    """two contenders, both suspended part-way (not well-nested): each runs acquire / critical section / release of the real
    Lock, RLock or BoundedSemaphore; a contender that polls for the resource, or for the cache's write lock, while the other is
    suspended lets the other run on.  The witness never sees more holders than the capacity, both finish, and the resource is
    free afterwards."""
    L = w.L
    kind, value = P['kind'], P.get('value', 1)
    cap = value if kind == 'sem' else 1
    w.clock_fn = lambda: 1000.0
    sharded = P.get('fanout', False)
    same = P.get('same_object', False)
    if sharded:
        cA = L.fanout.FanoutCache(w.dir, shards=2, eviction_policy='none')
        cB = cA if same else L.fanout.FanoutCache(w.dir, shards=2, eviction_policy='none')
    else:
        cA = w.new_cache(None, eviction_policy='none')
        cA._con
        cB = cA if same else w.clone_handle(cA)
    lkA, lkB = make_lock(L, kind, cA, value), make_lock(L, kind, cB, value)
    wit = Witness(cap)
    done = {}

    def body(name, lk):
        def run():
            lk.acquire()
            wit.enter(name)
            w.event('cs', 'critical section of %s' % name)
            wit.leave(name)
            lk.release()
            done[name] = True
        return run
    ida, idb = (100, 1), ((100, 2) if same else (200, 1))
    if P.get('ids'):
        # (pid, thread ident) pairs whose decimal digits run together to the same string: the owner tag must still tell them apart
        ida, idb = tuple(P['ids'][0]), tuple(P['ids'][1])
        w.pid, w.tid = ida
    w.preconnect(cA, ida)
    w.preconnect(cB, idb)
    if P.get('history'):
        # contender A has held the resource before and given it back in full: what that leaves behind (an owner tag with count 0, a
        # restored permit) must not let A back in past the other contender
        lkA.acquire()
        lkA.release()
        flag('history')
    w.start_events()
    il = w.interleave(body('A', lkA), body('B', lkB), w.int('at', 0, P.get('max_events', 14)), w.int('at2', 0, P.get('max_events', 14)),
                      id_a=ida, id_b=idb)
    w.stop_events()
    cl = [('C15', 'never more holders than the capacity', not wit.bad),
          ('C15', 'both contenders got the resource and finished', done.get('A') is True and (done.get('B') is True or not il.b_started))]
    # afterwards the resource is free
    if kind == 'lock':
        cl.append(('C15', 'the lock is free afterwards', lkA.locked() is False))
    elif kind == 'sem' and done.get('A') and done.get('B'):
        left = cA.get('the-lock', default=value)
        cl.append(('C15', 'every permit is back afterwards (no release lost, none counted twice)', EqR(zv(left), value) if is_num_like(left) else left == value))
    elif kind == 'rlock' and done.get('A') and done.get('B'):
        st_ = cA.get('the-lock', default=(None, 0))
        cl.append(('C15', 'the re-entrant lock is unowned afterwards', st_[1] == 0 if not is_num_like(st_[1]) else EqR(zv(st_[1]), 0)))
    flag('nontrivial')
    return cl

def ob_badrel_nested(w, P):
    """a release by a client that does not hold the resource, issued inside that client's own enclosing transaction block which
    catches the refusal and commits: the refusal must not have changed anything -- the real holder still holds, nobody else
    can acquire (RLock, BoundedSemaphore; Cache and FanoutCache)"""
    L = w.L
    kind, value = P['kind'], P.get('value', 1)
    w.clock_fn = lambda: 1000.0
    if P.get('fanout'):
        cA = L.fanout.FanoutCache(w.dir, shards=2, eviction_policy='none')
        cB = L.fanout.FanoutCache(w.dir, shards=2, eviction_policy='none')
    else:
        cA = w.new_cache(None, eviction_policy='none')
        cA._con
        cB = w.clone_handle(cA)
    lkA, lkB = make_lock(L, kind, cA, value), make_lock(L, kind, cB, value)
    cl = []
    # a semaphore has no owners: a release is refused only when no permit is out
    held = bool(w.bool('holder_present')) if kind != 'sem' else False
    w.start_events()
    if held:
        for _ in range(value if kind == 'sem' else 1):
            lkA.acquire()
    before = cA.get('the-lock', default='absent')
    w.pid, old = 200, w.pid
    refused = False
    try:
        with cB.transact():
            cB.set('unrelated', 1)
            try:
                lkB.release()
            except AssertionError:
                refused = True
    finally:
        w.pid = old
    w.stop_events()
    after = cA.get('the-lock', default='absent')
    cl.append(('C15', 'a release by a client that does not hold the resource is refused', refused))

    def same(a, b):
        if isinstance(a, tuple) and isinstance(b, tuple):
            return len(a) == len(b) and all(same(p, q) for p, q in zip(a, b))
        if is_num_like(a) and is_num_like(b):
            return sx.simp(EqR(zv(a), zv(b))) is True
        return a == b
    cl.append(('C15,C06', 'and changes nothing, also when the surrounding block of the refused client commits (%r -> %r)' % (before, after), same(before, after)))
    cl.append(('C15,C06', "the surrounding block's own write is there", cA.get('unrelated', default=None) is not None))
    flag('nontrivial')
    return cl

def ob_averager_busy(w, P):
    """Averager.add / get / pop while the write lock of the cache (shard) is busy for the first k attempts: every operation
    waits (they all ask for retry) -- no add is lost, pop returns the mean and really clears the entry; Cache and FanoutCache"""
    L = w.L
    w.clock_fn = lambda: 1000.0
    if P.get('fanout'):
        c = L.fanout.FanoutCache(w.dir, shards=2, eviction_policy='none')
        shards = list(c._shards)
    else:
        c = w.new_cache(None, eviction_policy='none')
        c._con
        shards = [c]
    av = L.recipes.Averager(c, 'lat')
    av.add(2.0)
    kk = w.int('busy_k', 1, 2)
    cnt = [0]

    def hook(con):
        cnt[0] += 1
        flag('lock_busy')
        return bool(kk >= cnt[0])
    op = P['op']
    for sh in shards:
        w.set_busy_hook(sh, hook)
    w.start_events()
    if op == 'add':
        r = av.add(4.0)
    elif op == 'pop':
        r = av.pop()
    else:
        r = av.get()
    w.stop_events()
    for sh in shards:
        w.set_busy_hook(sh, None)
    cl = []
    if op == 'add':
        cl.append(('C20,C14', 'an add that met a busy lock is counted', av.get() == 3.0))
    elif op == 'pop':
        cl.append(('C20,C14', 'a pop that met a busy lock returns the mean', r == 2.0))
        cl.append(('C20,C14', 'and has cleared the entry (the next window starts empty)', av.get() is None))
    else:
        cl.append(('C20,C14', 'get returns the mean', r == 2.0))
    flag('nontrivial')
    return cl

def jobs(tier):
    out = []
    LF = ['recipes.Lock.acquire', 'recipes.Lock.release', 'recipes.RLock.acquire', 'recipes.RLock.release', 'recipes.BoundedSemaphore.acquire', 'recipes.BoundedSemaphore.release',
          'recipes.barrier', 'core.Cache.add', 'core.Cache.delete', 'core.Cache.transact']
    progs = {'lock': ['acq,cs,rel'], 'rlock': ['acq,cs,rel', 'acq,acq,cs,rel,cs,rel', 'badrel,acq,cs,rel'], 'sem': ['acq,cs,rel', 'badrel,acq,cs,rel']}
    for kind in ('lock', 'rlock', 'sem'):
        for prog in progs[kind]:
            for same in (False, True):
                vals = (1, 2) if kind == 'sem' else (1,)
                for v in vals:
                    P = dict(kind=kind, prog=prog, same_object=same, value=v)
                    out.append(dict(id='lock.%s.%s.%s.v%d' % (kind, prog.replace(',', '-'), 'thread' if same else 'process', v), func='ob_lock', params=P, tags=['C15'],
                                    functions=LF, weight=6, twin=False, must_reach=['intruder_acquired']))
        for v in ((2, 1) if kind == 'sem' else (1,)):
            out.append(dict(id='lock.%s.hold.v%d' % (kind, v), func='ob_lock', params=dict(kind=kind, prog='acq,cs,rel', hold=True, value=v), tags=['C15'], functions=LF, weight=10,
                            twin=False, must_reach=['intruder_acquired']))
        out.append(dict(id='lock.%s.three' % kind, func='ob_lock', params=dict(kind=kind, prog='acq,cs,rel', three=True, value=2 if kind == 'sem' else 1), tags=['C15'],
                        functions=LF, weight=40, twin=False, must_reach=['interfered2']))
        out.append(dict(id='lock.%s.fanout' % kind, func='ob_lock', params=dict(kind=kind, prog='acq,cs,rel', fanout=True, value=1), tags=['C15'], functions=LF, weight=10, twin=False))
    for kind in ('lock', 'rlock', 'sem'):
        for fan in (False, True):
            for when in ('release', 'acquire'):
                out.append(dict(id='lock.%s.busy.%s%s' % (kind, when, '.fanout' if fan else ''), func='ob_lock_busy_release', params=dict(kind=kind, fanout=fan, when=when), tags=['C15', 'C14'],
                                functions=LF + ['fanout.FanoutCache.delete', 'fanout.FanoutCache.add'], weight=4, twin=False, must_reach=['lock_busy']))
    for kind in ('lock', 'rlock', 'sem'):
        for same in (False, True):
            for v in ((1, 2) if kind == 'sem' else (1,)):
                out.append(dict(id='lock.%s.il.%s.v%d' % (kind, 'thread' if same else 'process', v), func='ob_lock_il', params=dict(kind=kind, same_object=same, value=v), tags=['C15'],
                                functions=LF, weight=10, twin=False, must_reach=['both_suspended']))
        out.append(dict(id='lock.%s.il.fanout' % kind, func='ob_lock_il', params=dict(kind=kind, fanout=True, value=1), tags=['C15'], functions=LF, weight=10, twin=False, must_reach=['both_suspended']))
    for kind in ('lock', 'rlock', 'sem'):
        for same in (False, True):
            out.append(dict(id='lock.%s.il.history.%s' % (kind, 'thread' if same else 'process'), func='ob_lock_il', params=dict(kind=kind, same_object=same, value=1, history=True), tags=['C15'],
                            functions=LF, weight=10, twin=False, must_reach=['both_suspended', 'history']))
        out.append(dict(id='lock.%s.il.history.fanout' % kind, func='ob_lock_il', params=dict(kind=kind, fanout=True, value=1, history=True), tags=['C15'], functions=LF, weight=10, twin=False,
                        must_reach=['both_suspended', 'history']))
    for kind in ('lock', 'rlock', 'sem'):
        out.append(dict(id='lock.%s.il.ids' % kind, func='ob_lock_il', params=dict(kind=kind, same_object=False, value=1, ids=[[12, 34], [1, 234]]), tags=['C15'],
                        functions=LF, weight=10, twin=False, must_reach=['both_suspended']))
    for kind in ('rlock', 'sem'):
        for fan in (False, True):
            out.append(dict(id='lock.%s.badrel.nested%s' % (kind, '.fanout' if fan else ''), func='ob_badrel_nested', params=dict(kind=kind, fanout=fan, value=1), tags=['C15', 'C06'], functions=LF, weight=4, twin=False))
    out.append(dict(id='lock.barrier', func='ob_barrier', params={}, tags=['C15'], functions=LF, weight=5, twin=False, must_reach=['intruder_acquired']))
    AF = ['recipes.Averager.add', 'recipes.Averager.get', 'recipes.Averager.pop', 'core.Cache.transact']
    for a, b in [('add', 'add'), ('add', 'pop'), ('pop', 'add'), ('add', 'get'), ('pop', 'pop'), ('get', 'add')]:
        for pre in ([], [2.0]):
            out.append(dict(id='averager.%s.%s.pre%d' % (a, b, len(pre)), func='ob_averager', params=dict(a=a, b=b, pre=pre), tags=['C20', 'C05'], functions=AF, weight=4, twin=False,
                            must_reach=['interleaved']))
    for a, b, pre, xa, xb in [('add', 'get', [-8.0], 8.0, 0.0), ('add', 'pop', [], 0.0, 0.0), ('add', 'add', [2.0], -1.0, -1.0)]:
        out.append(dict(id='averager.zero_sum.%s.%s.pre%d' % (a, b, len(pre)), func='ob_averager', params=dict(a=a, b=b, pre=pre, xa=xa, xb=xb), tags=['C20', 'C05'], functions=AF, weight=4, twin=False,
                        must_reach=['interleaved']))
    for a, b in [('add', 'add'), ('add', 'pop'), ('pop', 'add')]:
        for same in (True, False):
            out.append(dict(id='averager.il.%s.%s.%s' % (a, b, 'thread' if same else 'process'), func='ob_averager', params=dict(a=a, b=b, pre=[2.0], il=True, same_object=same), tags=['C20', 'C05'],
                            functions=AF + ['core.Cache._transact'], weight=8, twin=False, must_reach=['both_suspended']))
    for op in ('add', 'pop', 'get'):
        for fan in (False, True):
            out.append(dict(id='averager.busy.%s%s' % (op, '.fanout' if fan else ''), func='ob_averager_busy', params=dict(op=op, fanout=fan), tags=['C20', 'C14'],
                            functions=AF + ['fanout.FanoutCache.pop', 'fanout.FanoutCache.get', 'fanout.FanoutCache.set'], weight=3, twin=False, must_reach=['lock_busy'] if op != 'get' else []))
    Ks = [3, 4] if tier == 'quick' else [3, 4, 5, 6]
    for K in Ks:
        for (c, s_) in [(1, 1), (2, 1), (1, 2), (3, 2)]:
            out.append(dict(id='throttle.K=%d.count=%d.seconds=%d' % (K, c, s_), func='ob_throttle', params=dict(K=K, count=c, seconds=s_), tags=['C20'],
                            functions=['recipes.throttle'], weight=K * K, twin=False))
    for which in ('methods', 'helpers'):
        out.append(dict(id='throttle.names.%s' % which, func='ob_throttle_names', params=dict(which=which), tags=['C20', 'C16'], functions=['recipes.throttle', 'core.full_name'], weight=2, twin=False))
    out.append(dict(id='throttle.K=4.two_callers', func='ob_throttle', params=dict(K=4, count=2, seconds=1, callers=2), tags=['C20'], functions=['recipes.throttle'], weight=20, twin=False))
    return out
