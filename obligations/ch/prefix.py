"""C10 (E2): queues with different string prefixes do not see each other's keys.
The key range [min_key, max_key] that push/pull/peek use for a prefix is taken from the real methods by
running them against a recording transaction stub; the key the real push generates for another prefix must
not fall into it."""
import contextlib
from symdc import ch_env

EXCLUDE = []


class Rec:
    """stands in for a Cache object: records the parameters of the range query"""

    def __init__(self, core, rows=()):
        self.core = core
        self.params = None
        self.rows = list(rows)
        self.inserted = None
        self._disk = core.Disk('/m', 2 ** 15, 4)

    @contextlib.contextmanager
    def _transact(self, retry=False, filename=None):
        def sql(stmt, params=()):
            if stmt.startswith('SELECT'):
                self.params = params
            return self
        yield sql, (lambda name: None)

    def fetchall(self):
        return self.rows

    def _row_insert(self, key, raw, now, columns):
        self.inserted = key

    def _cull(self, now, sql, cleanup):
        pass


def key_for(core, prefix, num):
    """the key the real push generates for `prefix` when the last key of that queue has number num-1"""
    r = Rec(core, rows=[('%s-%015d' % (prefix, num - 1),)])
    core.time = type('T', (), {'time': staticmethod(lambda: 0.0)})
    core.Cache.push(r, 0, prefix=prefix)
    return r.inserted


def range_for(core, prefix, method):
    r = Rec(core)
    core.time = type('T', (), {'time': staticmethod(lambda: 0.0)})
    getattr(core.Cache, method)(r, prefix=prefix) if method != 'push' else core.Cache.push(r, 0, prefix=prefix)
    return r.params[0], r.params[1]


def region_extends(p, q):
    # known finding 'queue-prefix-extension': prefix q == p + '-' + <something> is seen by the queue of prefix p
    return q.startswith(p + '-')


def allowed(p, q):
    if 'queue-prefix-extension' in EXCLUDE and region_extends(p, q):
        return False
    return True


NUMS = [1, 5, 500000000000000, 10 ** 15 - 2]


def pick(lst, i):
    for j, x in enumerate(lst):
        if i == j:
            return x
    raise IndexError(i)


def first_key(core, prefix):
    """the key the real push generates for an empty queue with this prefix"""
    r = Rec(core, rows=[])
    core.time = type('T', (), {'time': staticmethod(lambda: 0.0)})
    core.Cache.push(r, 0, prefix=prefix)
    return r.inserted


def isolation(p: str, q: str, which: int) -> bool:
    """
    pre: 1 <= len(p) <= 3 and 1 <= len(q) <= 3 and p != q
    pre: 0 <= which <= 2
    pre: allowed(p, q)
    post: _
    """
    core, fs, root = ch_env.setup()
    method = 'pull' if which == 0 else ('peek' if which == 1 else 'push')
    lo, hi = range_for(core, p, method)
    other = first_key(core, q)
    return not (lo < other and other < hi)


PREFIXES = ['a', 'a-5', '-', 'a-b-', '', ' ', 'a-000000000000001', '\x00']


def own_keys_in_range(pi: int, ni: int, which: int) -> bool:
    """
    pre: 0 <= pi <= 7 and 0 <= ni <= 3 and 0 <= which <= 2
    post: _
    """
    # prefixes that contain '-' (the number is parsed back with rfind): the generated key is prefix-%015d and lies in its own range
    p = pick(PREFIXES, pi)
    n = pick(NUMS, ni)
    core, fs, root = ch_env.setup()
    method = 'pull' if which == 0 else ('peek' if which == 1 else 'push')
    lo, hi = range_for(core, p, method)
    own = key_for(core, p, n)
    return lo < own < hi and own == '%s-%015d' % (p, n)
