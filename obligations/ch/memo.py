"""C16 (E2): args_to_key — calls with different arguments never share a key; equal calls always do.
Call shapes are enumerated (positional x keyword split up to total arity 3), values symbolic."""
from typing import Optional
from symdc import ch_env

EXCLUDE = []


NAMES = ['a', 'b', '']


def pick(lst, i):
    for j, x in enumerate(lst):
        if i == j:
            return x
    raise IndexError(i)


def a2k():
    return ch_env.L().core.args_to_key


def none_sep_region(args1, kw1, args2, kw2):
    """known finding 'memo-none-separator': the positional/keyword separator is None, so a call whose positional
    arguments continue with (None, name, value, ...) collides with a call that passes name=value by keyword"""
    def flat(args, kw):
        k = tuple(args) + (None,)
        for item in sorted(kw.items()):
            k += item
        return k
    return flat(args1, kw1) == flat(args2, kw2) and (tuple(args1), dict(kw1)) != (tuple(args2), dict(kw2))


def allowed(args1, kw1, args2, kw2):
    if 'memo-none-separator' in EXCLUDE and none_sep_region(args1, kw1, args2, kw2):
        return False
    return True


def same_call(args1, kw1, args2, kw2, typed):
    if (tuple(args1), dict(kw1)) != (tuple(args2), dict(kw2)):
        return False
    if typed:
        if [type(a) for a in args1] != [type(a) for a in args2]:
            return False
        if [type(kw1[k]) for k in sorted(kw1)] != [type(kw2[k]) for k in sorted(kw2)]:
            return False
    return True


def _chk(args1, kw1, args2, kw2, typed):
    k1 = a2k()(('f',), tuple(args1), dict(kw1), typed, ())
    k2 = a2k()(('f',), tuple(args2), dict(kw2), typed, ())
    return (k1 == k2) == same_call(args1, kw1, args2, kw2, typed)


def shape_2_0__2_0(x1: Optional[int], x2: Optional[int], y1: Optional[int], y2: Optional[int], typed: bool) -> bool:
    """
    pre: allowed((x1, x2), {}, (y1, y2), {})
    post: _
    """
    return _chk((x1, x2), {}, (y1, y2), {}, typed)


def shape_1_0__2_0(x1: Optional[int], y1: Optional[int], y2: Optional[int], typed: bool) -> bool:
    """
    pre: allowed((x1,), {}, (y1, y2), {})
    post: _
    """
    return _chk((x1,), {}, (y1, y2), {}, typed)


def shape_3_0__1_1(x1: Optional[int], x2: Optional[int], x3s: str, x3: Optional[int], y1: Optional[int], ni: int, y2: Optional[int], use_str: bool) -> bool:
    """
    pre: 0 <= ni <= 2 and len(x3s) <= 1
    pre: allowed((x1, x2, x3s if use_str else x3), {}, (y1,), {pick(NAMES, ni): y2})
    post: _
    """
    n = pick(NAMES, ni)
    return _chk((x1, x2, x3s if use_str else x3), {}, (y1,), {n: y2}, False)


def shape_3_0__1_1_str(x1: Optional[int], x2: Optional[int], x2s: str, x3: Optional[int], y1: Optional[int], ni: int, y2: Optional[int]) -> bool:
    """
    pre: 0 <= ni <= 2 and len(x2s) <= 1
    pre: allowed((x1, None, x2s, x3), {}, (y1,), {pick(NAMES, ni): y2})
    post: _
    """
    n = pick(NAMES, ni)
    # the positional tail (None, <str>, v) is exactly what a keyword argument contributes
    return _chk((x1, None, x2s, x3), {}, (y1,), {n: y2}, False)


def shape_1_1__1_1(x1: Optional[int], i1: int, x2: Optional[int], y1: Optional[int], i2: int, y2: Optional[int], typed: bool) -> bool:
    """
    pre: 0 <= i1 <= 2 and 0 <= i2 <= 2
    pre: allowed((x1,), {pick(NAMES, i1): x2}, (y1,), {pick(NAMES, i2): y2})
    post: _
    """
    n1, n2 = pick(NAMES, i1), pick(NAMES, i2)
    return _chk((x1,), {n1: x2}, (y1,), {n2: y2}, typed)


def shape_0_2__0_2_order(i1: int, v1: int, i2: int, v2s: str, typed: bool) -> bool:
    """
    pre: 0 <= i1 <= 2 and 0 <= i2 <= 2 and len(v2s) <= 1 and i1 != i2
    post: _
    """
    n1, n2 = pick(NAMES, i1), pick(NAMES, i2)
    # the same keyword arguments in a different order are the same call (also when typed)
    k1 = a2k()(('f',), (), {n1: v1, n2: v2s}, typed, ())
    k2 = a2k()(('f',), (), {n2: v2s, n1: v1}, typed, ())
    return k1 == k2


def shape_typed_int_float(a: int, typed: bool) -> bool:
    """
    pre: -2**53 <= a <= 2**53
    post: _
    """
    # numerically equal values of different types share a key only when typed is off
    k1 = a2k()(('f',), (a,), {}, typed, ())
    k2 = a2k()(('f',), (float(a),), {}, typed, ())
    k3 = a2k()(('f',), (), {'x': a}, typed, ())
    k4 = a2k()(('f',), (), {'x': float(a)}, typed, ())
    return (k1 == k2) == (not typed) and (k3 == k4) == (not typed)


def shape_ignore(x1: Optional[int], x2: Optional[int], y1: Optional[int], y2: Optional[int], ni: int, v1: Optional[int], v2: Optional[int]) -> bool:
    """
    pre: 0 <= ni <= 2
    post: _
    """
    n = pick(NAMES, ni)
    # ignored positional index 1 and ignored keyword n: calls that differ only there share the key, others do not
    f = a2k()
    k1 = f(('f',), (x1, x2), {n: v1}, False, {1, n})
    k2 = f(('f',), (y1, y2), {n: v2}, False, {1, n})
    return (k1 == k2) == (x1 == y1)


def base_distinct(b1: str, b2: str, x: Optional[int]) -> bool:
    """
    pre: len(b1) <= 2 and len(b2) <= 2
    post: _
    """
    f = a2k()
    return (f((b1,), (x,), {}, False, ()) == f((b2,), (x,), {}, False, ())) == (b1 == b2)
