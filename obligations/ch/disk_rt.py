"""C01 (E2): Disk.store / Disk.fetch round trips on symbolic str / bytes / int, symbolic threshold,
symbolic chunking of the in-memory stream.  CrossHair harness functions (PEP316 contracts)."""
from symdc import ch_env


def _roundtrip(core, d, v, read=False):
    size, mode, fn, dbv = d.store(v, read)
    dbv = ch_env.sqlite_value_roundtrip(dbv)
    out = d.fetch(mode, fn, dbv, False)
    return size, mode, fn, out


def rt_str(v: str, thr: int, split: int) -> bool:
    """
    pre: len(v) <= 3 and 0 <= thr <= 4 and 0 <= split <= 3
    post: _
    """
    core, fs, root = ch_env.setup(split)
    try:
        d = core.Disk(root, thr, 4)
        try:
            size, mode, fn, out = _roundtrip(core, d, v)
        except UnicodeEncodeError:
            return True  # rejected with an exception (lone surrogate), never silently altered
        ok = type(out) is str and out == v
        if fn is not None:
            ok = ok and size == len(fs.files[root + '/' + fn])
        else:
            ok = ok and size == 0
        return ok
    finally:
        if ch_env.MODE == 'real':
            ch_env.cleanup_real(root)


def rt_str_file(v: str) -> bool:
    """
    pre: len(v) <= 2
    post: _
    """
    # the file-backed text path alone (threshold 0, one chunk): every str of up to two arbitrary code points -- incl. lone
    # surrogates and pairs of them -- comes back identical or is rejected with UnicodeEncodeError
    core, fs, root = ch_env.setup(0)
    try:
        d = core.Disk(root, 0, 4)
        try:
            size, mode, fn, out = _roundtrip(core, d, v)
        except UnicodeEncodeError:
            return True
        return type(out) is str and out == v and len(out) == len(v)
    finally:
        if ch_env.MODE == 'real':
            ch_env.cleanup_real(root)


def rt_bytes(v: bytes, thr: int, split: int) -> bool:
    """
    pre: len(v) <= 3 and 0 <= thr <= 4 and 0 <= split <= 3
    post: _
    """
    core, fs, root = ch_env.setup(split)
    try:
        d = core.Disk(root, thr, 4)
        size, mode, fn, out = _roundtrip(core, d, v)
        ok = type(out) is bytes and out == v
        if fn is not None:
            ok = ok and size == len(v) and fs.files[root + '/' + fn] == v
        else:
            ok = ok and size == 0
        return ok
    finally:
        if ch_env.MODE == 'real':
            ch_env.cleanup_real(root)


def rt_int(v: int, thr: int) -> bool:
    """
    pre: -2**63 <= v < 2**63 and 0 <= thr <= 4
    post: _
    """
    core, fs, root = ch_env.setup()
    try:
        d = core.Disk(root, thr, 4)
        size, mode, fn, out = _roundtrip(core, d, v)
        return type(out) is int and out == v and fn is None and size == 0
    finally:
        if ch_env.MODE == 'real':
            ch_env.cleanup_real(root)


class Stream:
    """a readable binary stream that hands out its data in bursts (read(n) may return fewer than n bytes)"""

    def __init__(self, data, burst):
        self.data, self.burst, self.pos = data, burst, 0

    def read(self, n=-1):
        k = len(self.data) - self.pos if n is None or n < 0 else min(n, len(self.data) - self.pos)
        if self.burst > 0:
            k = min(k, self.burst)
        r = self.data[self.pos:self.pos + k]
        self.pos += k
        return r


def rt_stream(v: bytes, burst: int) -> bool:
    """
    pre: len(v) <= 4 and 0 <= burst <= 4
    post: _
    """
    core, fs, root = ch_env.setup()
    try:
        d = core.Disk(root, 0, 4)
        size, mode, fn, dbv = d.store(Stream(v, burst), True)
        out = d.fetch(mode, fn, dbv, False)
        return type(out) is bytes and out == v and size == len(v)
    finally:
        if ch_env.MODE == 'real':
            ch_env.cleanup_real(root)


SPECIAL = [float('nan'), float('inf'), float('-inf'), 0.0, -0.0, 5e-324, -5e-324, 1.5, 1.7976931348623157e308, 2.0 ** 63, -2.0 ** 63, 2.0 ** 53 + 2]


def pick(lst, i):
    for j, x in enumerate(lst):
        if i == j:
            return x
    raise IndexError(i)


def rt_float_special(i: int, thr: int) -> bool:
    """
    pre: 0 <= i < 12 and 0 <= thr <= 4
    post: _
    """
    import math
    v = pick(SPECIAL, i)
    core, fs, root = ch_env.setup()
    try:
        d = core.Disk(root, thr, 4)
        size, mode, fn, out = _roundtrip(core, d, v)
        if type(out) is not float:
            return False
        if v != v:
            return out != out
        return out == v and math.copysign(1.0, out) == math.copysign(1.0, v)
    finally:
        if ch_env.MODE == 'real':
            ch_env.cleanup_real(root)


def rt_float(v: float) -> bool:
    """
    pre: v == v
    post: _
    """
    # every non-NaN float takes the native path unchanged (identity), so sign, infinities and subnormals survive
    core, fs, root = ch_env.setup()
    try:
        d = core.Disk(root, 0, 4)
        size, mode, fn, dbv = d.store(v, False)
        out = d.fetch(mode, fn, dbv, False)
        return out is v and size == 0 and fn is None
    finally:
        if ch_env.MODE == 'real':
            ch_env.cleanup_real(root)


def rt_misc(i: int, thr: int, proto: int) -> bool:
    """
    pre: 0 <= i < 16 and 0 <= thr <= 40 and 0 <= proto <= 5
    post: _
    """
    from symdc import ch_types as T
    vals = [None, True, False, (1, 'a', b'b', None), [1, [2, [3]]], {'k': (1, 2)}, 2 ** 63, -2 ** 63 - 1, 2 ** 200, frozenset([1, 2]),
            T.SubStr('abc'), T.SubBytes(b'abc'), T.SubFloat(1.5), T.SubInt(7), T.Colour.BLUE, T.SubStr('a' * 50)]
    v = pick(vals, i)
    core, fs, root = ch_env.setup()
    try:
        d = core.Disk(root, thr, proto)
        size, mode, fn, out = _roundtrip(core, d, v)
        return type(out) is type(v) and out == v
    finally:
        if ch_env.MODE == 'real':
            ch_env.cleanup_real(root)


JSON_VALS = [None, True, False, 0, -1, 2 ** 63, -2 ** 70, 1.5, -0.0, 1e308, '', 'a', '\r\n', '\x00', '\u2028\x85', '\U0001f600', [], [1, [2, [None]]], {}, {'k': [1, {'z': 'y'}]},
             'x' * 40, list(range(12)), {'a' * 9: 'b' * 9}]


def rt_json(i: int, thr: int, level: int) -> bool:
    """
    pre: 0 <= i < 23 and 0 <= thr <= 64 and 0 <= level <= 2
    post: _
    """
    # JSONDisk: every JSON-representable value comes back equal and of the same type, as value (in the database or in a file,
    # on both sides of the threshold, which applies to the compressed size) and as key, for every compression level
    v = pick(JSON_VALS, i)
    core, fs, root = ch_env.setup()
    try:
        d = core.JSONDisk(root, compress_level=pick([0, 1, 9], level), min_file_size=thr, pickle_protocol=4)
        size, mode, fn, out = _roundtrip(core, d, v)
        ok = type(out) is type(v) and out == v and repr(out) == repr(v)
        dbk, raw = d.put(v)
        k2 = d.get(ch_env.sqlite_value_roundtrip(dbk), raw)
        ok = ok and type(k2) is type(v) and k2 == v and repr(k2) == repr(v)
        if fn is not None:
            ok = ok and size == len(fs.files[root + '/' + fn])
        return ok
    finally:
        if ch_env.MODE == 'real':
            ch_env.cleanup_real(root)


def json_keys_distinct(i: int, j: int) -> bool:
    """
    pre: 0 <= i < 23 and 0 <= j < 23 and i != j
    post: _
    """
    # two different JSON values never serialize to the same database key (no aliasing through JSONDisk.put)
    a, b = pick(JSON_VALS, i), pick(JSON_VALS, j)
    core, fs, root = ch_env.setup()
    try:
        d = core.JSONDisk(root, compress_level=1)
        ka, kb = d.put(a), d.put(b)
        same_value = (a == b and type(a) is type(b))
        return same_value or (bytes(ka[0]), ka[1]) != (bytes(kb[0]), kb[1])
    finally:
        if ch_env.MODE == 'real':
            ch_env.cleanup_real(root)


def same_graph(a, b, fwd=None, bwd=None):
    """equal values AND the same sharing structure: sub-objects reached by two paths in one graph are one object in the other"""
    fwd = {} if fwd is None else fwd
    bwd = {} if bwd is None else bwd
    if type(a) is not type(b):
        return False
    if isinstance(a, (list, dict, set, tuple, frozenset)) or hasattr(a, '__dict__'):
        if id(a) in fwd or id(b) in bwd:
            return fwd.get(id(a)) == id(b) and bwd.get(id(b)) == id(a)
        fwd[id(a)], bwd[id(b)] = id(b), id(a)
    if isinstance(a, (list, tuple)):
        return len(a) == len(b) and all(same_graph(x, y, fwd, bwd) for x, y in zip(a, b))
    if isinstance(a, dict):
        return list(a.keys()) == list(b.keys()) and all(same_graph(a[k], b[k], fwd, bwd) for k in a)
    if hasattr(a, '__dict__'):
        return same_graph(a.__dict__, b.__dict__, fwd, bwd)
    return a == b


class Node:
    pass


def _graphs():
    shared = [1]
    g1 = {'x': shared, 'y': shared}
    g2 = (shared, shared, [shared])
    cyc = []
    cyc.append(cyc)
    n = Node()
    n.me = n
    n.twice = [shared, shared]
    deep = [[['a'] * 2] * 2] * 2
    return [g1, g2, cyc, n, deep, {'k': cyc}]


def rt_graph(i: int, thr: int, proto: int) -> bool:
    """
    pre: 0 <= i < 6 and 0 <= thr <= 200 and 0 <= proto <= 5
    post: _
    """
    # the same object graph: values whose sub-objects are shared or cyclic come back with the same sharing, in the database
    # and in a file, for every pickle protocol
    v = pick(_graphs(), i)
    core, fs, root = ch_env.setup()
    try:
        d = core.Disk(root, thr, proto)
        size, mode, fn, out = _roundtrip(core, d, v)
        return same_graph(v, out)
    finally:
        if ch_env.MODE == 'real':
            ch_env.cleanup_real(root)


STR_POOL = ['\ufeff', '\ufeffabc', 'a\ufeff', '\ufeff\ufeff', '\ufffe', '\r', '\r\n', '\n\r', '\x00', '\x1a', '\x85', '\u2028\u2029', '\ud7ff\ue000', '\U0010ffff', '\xff\xfe',
            ' ', '\t', 'caf\xe9', 'e\u0301', '\u00e9', 'A' * 5]


def rt_str_pool(i: int, thr: int, pad: int) -> bool:
    """
    pre: 0 <= i < 21 and 0 <= thr <= 8 and 0 <= pad <= 3
    post: _
    """
    # strings that decoders like to "help" with (byte order marks, newline flavours, NUL, non-characters, combining forms), alone and
    # padded, on both sides of the threshold: identical code points back, or rejected
    v = pick(STR_POOL, i) + 'x' * pad
    core, fs, root = ch_env.setup(0)
    try:
        d = core.Disk(root, thr, 4)
        try:
            size, mode, fn, out = _roundtrip(core, d, v)
        except UnicodeEncodeError:
            return True
        return type(out) is str and out == v and len(out) == len(v) and [ord(c) for c in out] == [ord(c) for c in v]
    finally:
        if ch_env.MODE == 'real':
            ch_env.cleanup_real(root)
