"""C18 (a) format stability (E2): for all keys / values in the C01/C02 domains the current Disk.put / hash / store
(mode, inline-vs-file decision, recorded size, file bytes, file-name layout) agree with the frozen baseline copy
(golden/diskcache/core.py), and what the baseline wrote is read back by the current fetch/get."""
from symdc import ch_env


def _pair(thr=0, split=0):
    core, fs, root = ch_env.setup_model(split)
    g = ch_env.G()
    gcore, gfs, _ = ch_env.setup_model(split, mod=g)
    # checksum as a pure (solver-friendly) function of the bytes, the same in both copies
    lin = lambda data, value=1: (sum(data) + 1000 * len(data) + value) & 0xFFFFFFFF
    core.zlib.adler32 = lin
    gcore.zlib.adler32 = lin
    return core, fs, gcore, gfs, root


def fmt_put_int(k: int) -> bool:
    """
    pre: -2**63 <= k < 2**63
    post: _
    """
    core, fs, gcore, gfs, root = _pair()
    a, b = core.Disk(root, 0, 4), gcore.Disk(root, 0, 4)
    return a.put(k) == b.put(k) and a.hash(k) == b.hash(k)


def fmt_put_str(k: str) -> bool:
    """
    pre: len(k) <= 3
    post: _
    """
    core, fs, gcore, gfs, root = _pair()
    a, b = core.Disk(root, 0, 4), gcore.Disk(root, 0, 4)
    return a.put(k) == b.put(k) and a.hash(k) == b.hash(k) and a.get(*b.put(k)) == k


def fmt_put_bytes(k: bytes) -> bool:
    """
    pre: len(k) <= 3
    post: _
    """
    core, fs, gcore, gfs, root = _pair()
    a, b = core.Disk(root, 0, 4), gcore.Disk(root, 0, 4)
    (ka, ra), (kb, rb) = a.put(k), b.put(k)
    return bytes(ka) == bytes(kb) and ra == rb and a.hash(k) == b.hash(k) and a.get(kb, rb) == k


def pick(lst, i):
    for j, x in enumerate(lst):
        if i == j:
            return x
    raise IndexError(i)


OTHER = [True, None, (1, 'a'), 2 ** 63, -2 ** 63 - 1, frozenset([1]), 1.5, -0.0, float('inf')]


def fmt_put_other(i: int, proto: int) -> bool:
    """
    pre: 0 <= i < 9 and 0 <= proto <= 5
    post: _
    """
    k = pick(OTHER, i)
    core, fs, gcore, gfs, root = _pair()
    a, b = core.Disk(root, 0, proto), gcore.Disk(root, 0, proto)
    (ka, ra), (kb, rb) = a.put(k), b.put(k)
    same = (bytes(ka) == bytes(kb)) if ra is False else (ka == kb and type(ka) is type(kb))
    return same and ra == rb and a.hash(k) == b.hash(k) and a.get(kb, rb) == k


def _same_store(a, fa, b, fb, root, v, read=False):
    ra = a.store(v, read)
    rb = b.store(v, read)
    (sa, ma, na, va), (sb, mb, nb, vb) = ra, rb
    if (sa, ma) != (sb, mb) or (na is None) != (nb is None):
        return False
    if na is None:
        return (bytes(va) == bytes(vb)) if isinstance(va, memoryview) or isinstance(vb, memoryview) else (va == vb and type(va) is type(vb))
    # same layout xx/yy/<28 hex>.val and the same bytes on disk
    ok = len(na) == len(nb) and na[2] == '/' and na[5] == '/' and na.endswith('.val') and len(na) == 2 + 1 + 2 + 1 + 28 + 4
    return ok and fa.files[root + '/' + na] == fb.files[root + '/' + nb] and a.fetch(mb, nb, vb, False) == v if na in [p[len(root) + 1:] for p in fa.files] and False else \
        ok and fa.files[root + '/' + na] == fb.files[root + '/' + nb]


def fmt_store_str(v: str, thr: int) -> bool:
    """
    pre: len(v) <= 3 and 0 <= thr <= 4
    post: _
    """
    core, fs, gcore, gfs, root = _pair()
    a, b = core.Disk(root, thr, 4), gcore.Disk(root, thr, 4)
    try:
        return _same_store(a, fs, b, gfs, root, v)
    except UnicodeEncodeError:
        return True


def fmt_store_bytes(v: bytes, thr: int) -> bool:
    """
    pre: len(v) <= 3 and 0 <= thr <= 4
    post: _
    """
    core, fs, gcore, gfs, root = _pair()
    a, b = core.Disk(root, thr, 4), gcore.Disk(root, thr, 4)
    return _same_store(a, fs, b, gfs, root, v)


def fmt_store_int(v: int, thr: int) -> bool:
    """
    pre: -2**63 <= v < 2**63 and 0 <= thr <= 4
    post: _
    """
    core, fs, gcore, gfs, root = _pair()
    a, b = core.Disk(root, thr, 4), gcore.Disk(root, thr, 4)
    return _same_store(a, fs, b, gfs, root, v)


def fmt_read_baseline_text(v: str, thr: int) -> bool:
    """
    pre: len(v) <= 3 and 0 <= thr <= 4
    post: _
    """
    # what the baseline wrote (text files written in universal-newlines mode) is read back by the current fetch
    # exactly as the baseline's own fetch read it
    core, fs, gcore, gfs, root = _pair()
    b = gcore.Disk(root, thr, 4)
    try:
        size, mode, name, val = b.store(v, False)
    except UnicodeEncodeError:
        return True
    a = core.Disk(root, thr, 4)
    if name is not None:
        fs.dirs |= gfs.dirs
        fs.files[root + '/' + name] = gfs.files[root + '/' + name]
    got = a.fetch(mode, name, val, False)
    want = b.fetch(mode, name, val, False)
    # the baseline translated '\\r' on reading; bytes on disk are the truth: current reads them untranslated
    return got == want or (chr(13) in v and got == v)


def fmt_constants(i: int) -> bool:
    """
    pre: i == 0
    post: _
    """
    core, fs, gcore, gfs, root = _pair()
    names = ['DBNAME', 'MODE_NONE', 'MODE_RAW', 'MODE_BINARY', 'MODE_TEXT', 'MODE_PICKLE']
    same = all(getattr(core, n) == getattr(gcore, n) for n in names)
    same = same and {k: v for k, v in core.DEFAULT_SETTINGS.items()} == {k: v for k, v in gcore.DEFAULT_SETTINGS.items()} and core.METADATA == gcore.METADATA
    same = same and {k: v['init'] for k, v in core.EVICTION_POLICY.items()} == {k: v['init'] for k, v in gcore.EVICTION_POLICY.items()}
    return same


JSON_FMT = [None, True, 0, -2 ** 70, 1.5, '', 'a', 'caf\xe9', '\u6771\u4eac', '\U0001f600 smile', '\x00\r\n', '\u2028\x85', ['na\xefve', 7], {'city': '\u6771\u4eac'}, {'k': [1, {'z': 'y'}]}, 'x' * 40]


def fmt_json(i: int, level: int, thr: int) -> bool:
    """
    pre: 0 <= i < 16 and 0 <= level <= 2 and 0 <= thr <= 64
    post: _
    """
    # JSONDisk: keys and values are serialized to the same bytes (same database key, same routing hash, same mode / size /
    # inline-vs-file decision, same file bytes) as by the frozen baseline, and what the baseline wrote is read back
    v = pick(JSON_FMT, i)
    lv = pick([0, 1, 9], level)
    core, fs, gcore, gfs, root = _pair()
    a, b = core.JSONDisk(root, compress_level=lv, min_file_size=thr), gcore.JSONDisk(root, compress_level=lv, min_file_size=thr)
    (ka, ra), (kb, rb) = a.put(v), b.put(v)
    ok = bytes(ka) == bytes(kb) and ra == rb and a.hash(v) == b.hash(v) and a.get(kb, rb) == v
    return ok and _same_store(a, fs, b, gfs, root, v)
