"""C02 / C13 (E2): Disk.put / Disk.get / Disk.hash on symbolic keys.

same_entry(k1, k2) := raw1 == raw2 and sql_eq(db1, db2)   -- what `WHERE key = ? AND raw = ?` decides
documented(k1, k2) := native numbers (int within 64 bits, float) compare numerically and exactly;
                      str == str; bytes == bytes; everything else by type and structure.
"""
import math
import pickle
from fractions import Fraction

from symdc import ch_env

EXCLUDE = []  # ids of known findings whose region is excluded (set by the runner)

INT64 = (-2 ** 63, 2 ** 63 - 1)


def _disk(proto=4):
    core, fs, root = ch_env.setup()
    if ch_env.MODE == 'model':
        # checksum stub: adler32 enters only as a pure function of the encoded key (uninterpreted for routing purposes);
        # a solver-friendly linear stand-in keeps "same bytes -> same value" decidable
        core.zlib.adler32 = lambda data, value=1: (sum(data) + 1000 * len(data) + value) & 0xFFFFFFFF
    return core, core.Disk(root, 0, proto)


def sql_class(v):
    if v is None:
        return 0
    if isinstance(v, (int, float)) and not isinstance(v, bool):
        return 1
    if isinstance(v, bool):
        return 1
    if isinstance(v, str):
        return 2
    return 3  # bytes-like


def sql_eq(a, b):
    """SQLite `=` between two bound values of a BLOB-affinity column (documented comparison rules)"""
    ca, cb = sql_class(a), sql_class(b)
    if ca != cb or ca == 0:
        return False
    if ca == 1:
        if isinstance(a, float) and isinstance(b, float):
            return a == b
        if isinstance(a, float):
            a, b = b, a
        if isinstance(b, float):
            if b != b or b in (math.inf, -math.inf):
                return False
            return b == math.floor(b) and a == int(b)  # exact integer/real comparison
        return a == b
    if ca == 2:
        return a == b
    return bytes(a) == bytes(b)


def native(k):
    t = type(k)
    return (t is int and INT64[0] <= k <= INT64[1]) or t is float


def same_entry(d, k1, k2):
    a, ra = d.put(k1)
    b, rb = d.put(k2)
    return ra == rb and sql_eq(a, b)


# ---- round trip of keys (what iteration / peekitem return)

def key_rt_int(k: int) -> bool:
    """
    pre: -2**63 <= k < 2**63
    post: _
    """
    core, d = _disk()
    dbk, raw = d.put(k)
    out = d.get(ch_env.sqlite_value_roundtrip(dbk), raw)
    return raw is True and type(dbk) is int and type(out) is int and out == k


def key_rt_str(k: str) -> bool:
    """
    pre: len(k) <= 3
    post: _
    """
    core, d = _disk()
    dbk, raw = d.put(k)
    out = d.get(ch_env.sqlite_value_roundtrip(dbk), raw)
    return raw is True and type(out) is str and out == k


def key_rt_bytes(k: bytes) -> bool:
    """
    pre: len(k) <= 3
    post: _
    """
    core, d = _disk()
    dbk, raw = d.put(k)
    out = d.get(ch_env.sqlite_value_roundtrip(dbk), raw)
    return raw is True and type(out) is bytes and out == k


def pick(lst, i):
    """list element by a symbolic index, as an if-chain (CrossHair cannot index a concrete list symbolically outside tracing)"""
    for j, x in enumerate(lst):
        if i == j:
            return x
    raise IndexError(i)


BIG = [2 ** 63, -2 ** 63 - 1, 2 ** 64, -2 ** 100, 2 ** 63 - 1, -2 ** 63, 0, True, False, None, (1, 'a'), (1.0, 'a'), frozenset([1])]


def key_rt_boundary(i: int, proto: int) -> bool:
    """
    pre: 0 <= i < 13 and 0 <= proto <= 5
    post: _
    """
    k = pick(BIG, i)
    core, d = _disk(proto)
    dbk, raw = d.put(k)
    out = d.get(ch_env.sqlite_value_roundtrip(dbk), raw)
    ok = type(out) is type(k) and out == k
    if type(k) is int and INT64[0] <= k <= INT64[1]:
        ok = ok and raw is True
    else:
        ok = ok and raw is False
    return ok


# ---- aliasing: pairs of keys

def alias_int_int(a: int, b: int) -> bool:
    """
    pre: -2**63 <= a < 2**63 and -2**63 <= b < 2**63
    post: _
    """
    core, d = _disk()
    return same_entry(d, a, b) == (a == b)


def key_put_float(f: float) -> bool:
    """
    pre: f == f
    post: _
    """
    # every float (incl. -0.0, inf, subnormals) is stored natively and unchanged: numeric equality between native
    # numbers is then SQLite's exact INTEGER/REAL comparison (assumed contract; boundary table below)
    core, d = _disk()
    dbk, raw = d.put(f)
    out = d.get(dbk, raw)
    return raw is True and dbk is f and out is f


def alias_int_float_boundary(i: int, j: int) -> bool:
    """
    pre: 0 <= i < 8 and 0 <= j < 8
    post: _
    """
    ints = [2 ** 63 - 1, -2 ** 63, 2 ** 53, 2 ** 53 + 1, -2 ** 53 - 1, 0, 2 ** 63 - 1024, -2 ** 63 + 1]
    floats = [2.0 ** 63, -2.0 ** 63, 2.0 ** 53, float(2 ** 53 + 2), -0.0, 0.0, float(2 ** 63 - 1024), 5e-324]
    a, f = pick(ints, i), pick(floats, j)
    core, d = _disk()
    return same_entry(d, a, f) == (a == f)


def alias_str_bytes(s: str, b: bytes) -> bool:
    """
    pre: len(s) <= 2 and len(b) <= 2
    post: _
    """
    core, d = _disk()
    return not same_entry(d, s, b)


def alias_str_str(a: str, b: str) -> bool:
    """
    pre: len(a) <= 2 and len(b) <= 2
    post: _
    """
    core, d = _disk()
    return same_entry(d, a, b) == (a == b)


def alias_bytes_bytes(a: bytes, b: bytes) -> bool:
    """
    pre: len(a) <= 2 and len(b) <= 2
    post: _
    """
    core, d = _disk()
    return same_entry(d, a, b) == (a == b)


def alias_native_vs_pickled(a: int, i: int) -> bool:
    """
    pre: -2**63 <= a < 2**63 and 0 <= i < 6
    post: _
    """
    # a native key never addresses the entry of a pickled key (bool, None, tuple, big int), whatever their Python equality
    others = [True, False, None, (1,), 2 ** 63, -2 ** 63 - 1]
    core, d = _disk()
    o = pick(others, i)
    return not same_entry(d, a, o) and not same_entry(d, 0.5, o) and not same_entry(d, 1.0, o)


def alias_bytes_equal_to_pickle(i: int, proto: int) -> bool:
    """
    pre: 0 <= i < 6 and 0 <= proto <= 5
    post: _
    """
    # a bytes key equal to another key's serialized form is a different entry (raw flag differs)
    others = [True, None, (1, 'a'), 2 ** 63, frozenset([1]), (None,)]
    core, d = _disk(proto)
    o = pick(others, i)
    dbk, raw = d.put(o)
    return raw is False and not same_entry(d, bytes(dbk), o) and same_entry(d, o, o)


# ---- C13: routing

def route_equal_int_float(a: int, f: float) -> bool:
    """
    pre: -2**53 <= a <= 2**53 and f == a
    pre: allowed_route(a, f)
    post: _
    """
    core, d = _disk()
    return d.hash(a) == d.hash(f)


def allowed_route(a, f):
    # known finding "hash-int-float": int and float keys that are equal are routed differently
    return 'hash-int-float' not in EXCLUDE


def route_pure_str(k: str, shards: int) -> bool:
    """
    pre: len(k) <= 2 and 1 <= shards <= 13
    post: _
    """
    core, d = _disk()
    poison(core)
    try:
        h1 = d.hash(k)
        h2 = core.Disk('/other', 5, 2).hash(k)
    finally:
        unpoison(core)
    return h1 == h2 and 0 <= h1 <= 0xFFFFFFFF and h1 % shards == h2 % shards and h1 == core.zlib.adler32(k.encode('utf-8')) & 0xFFFFFFFF


def route_pure_bytes(k: bytes) -> bool:
    """
    pre: len(k) <= 2
    post: _
    """
    core, d = _disk()
    poison(core)
    try:
        h1 = d.hash(k)
        h2 = core.Disk('/other', 5, 2).hash(k)
    finally:
        unpoison(core)
    return h1 == h2 and h1 == core.zlib.adler32(k) & 0xFFFFFFFF


def route_pure_int(k: int) -> bool:
    """
    pre: -2**63 <= k < 2**63
    post: _
    """
    core, d = _disk()
    poison(core)
    try:
        h1 = d.hash(k)
    finally:
        unpoison(core)
    return h1 == k % 0xFFFFFFFF and 0 <= h1 < 0xFFFFFFFF


def _boom(*a, **k):
    raise AssertionError('routing consulted a process-dependent source (hash/id/time/random)')


def poison(core):
    core.__dict__['hash'] = _boom
    core.__dict__['id'] = _boom


def unpoison(core):
    core.__dict__.pop('hash', None)
    core.__dict__.pop('id', None)


# ---- C13: the shard of a key does not depend on which keys were routed before (FanoutCache built by the real __init__)

class _RecCache:
    made = []

    def __init__(self, directory=None, timeout=60, disk=None, **settings):
        self.directory, self.settings = directory, settings
        core, fs, root = ch_env.setup()
        self.disk = core.Disk(root, 0, 4)
        if ch_env.MODE == 'model':
            core.zlib.adler32 = lambda data, value=1: (sum(data) + 1000 * len(data) + value) & 0xFFFFFFFF


def _fanout(shards):
    m = ch_env.L()
    old = m.fanout.Cache
    m.fanout.Cache = _RecCache
    try:
        return m.fanout.FanoutCache('/m', shards=shards)
    finally:
        m.fanout.Cache = old


POOL = [0, 1, -1, 2, 2 ** 53]


def route_history_independent(ai: int, variant: int, si: int) -> bool:
    """
    pre: 0 <= ai <= 4 and 0 <= variant <= 3 and 0 <= si <= 4
    post: _
    """
    a = pick(POOL, ai)
    shards = pick([1, 2, 3, 8, 13], si)
    # keys that Python considers equal but the cache stores as distinct entries (or as one entry): routing the first
    # must not influence the shard of the second
    if variant == 0:
        k1, k2 = a, float(a)
    elif variant == 1:
        k1, k2 = (a, 'u'), (float(a), 'u')
    elif variant == 2:
        k1, k2 = 1, True
    else:
        k1, k2 = (float(a), 'u'), (a, 'u')
    fc = _fanout(shards)
    fresh = _fanout(shards)
    fc._hash(k1)
    return fc._hash(k2) % shards == fresh._hash(k2) % shards and fc._hash(k2) == fresh._shards[0].disk.hash(k2)
