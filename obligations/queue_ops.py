"""C10: push / pull / peek on the integer queue (prefix=None) from an arbitrary symbolic state that mixes
queue items, ordinary integer keys outside (0, 999999999999999), expired heads and file-backed items."""
from symdc import sx, spec, state, scn as scn_mod, sqlmodel
from symdc.sx import (And, Or, Not, Implies, IfB, IfI, IfR, EqI, NeI, EqR, NeR, LtR, LeR, AddR, SubR, Count, AndL, OrL, simp, isz)
from symdc.zpath import I, R, B, assume, flag
from symdc.sqlmodel import Cell, CNULL, NULL, INT, REAL, TEXT, cell_eq, cell_same, ite_cell
from symdc.state import Item, same_cols, CACHE_COLS, ALL_BUT_ROWID
from symdc.spec import dead, live, write_with_cull, unchanged
from obligations.cache_ops import directive_aware, Ctx, zv, written_int, exp_cell, tag_cell, clause_tags, POLICIES, SHORT

LO, HI = 0, 999999999999999


def in_range(it):
    return And(it.present, EqI(it.c['key'].cls, INT), EqR(it.c['raw'].num, 1), LtR(LO, it.c['key'].num), LtR(it.c['key'].num, HI))


def assume_margin(x):
    """queue numbers stay away from the ends of the range (fewer than 5e14 net pushes on one side)"""
    for rv in x.s.rowvars:
        k = rv['key'].z
        assume(sx.zB(Or(k <= LO, k >= HI, And(k >= 2, k <= HI - 2))))


# string-prefix queues: rows take their keys from a concrete pool (symbolic choice, presence, values, expiry); the pool holds
# members of several queues, near misses of the key range and ordinary keys
QPOOL = ['a-499999999999999', 'a-500000000000000', 'a-500000000000001', 'ab-500000000000000', 'a', 'a-', 'a.5', 'b-500000000000000',
         'a-b-500000000000000', 'a-b-500000000000001', 500000000000000, 'A-500000000000000', 'a-b', 'a,500000000000000', '-500000000000000', '-499999999999999', '', 'q5-500000000000000', 'q5-500000000000001', '4x-499999999999999',
         '{0}-500000000000000', '{0}-499999999999999', '500000000000000-500000000000000']
PREFIXES = ['a', 'a-b', 'b', 'ab', '', 'q5', '4x', '{0}']  # incl. prefixes that share characters with the 15-digit counter or look like a format field


def is_member(k, prefix):
    return isinstance(k, str) and len(k) == len(prefix) + 16 and k.startswith(prefix + '-') and k[-15:].isdigit()


def in_known_region(k, prefix):
    """known finding queue-prefix-extension: keys of the form prefix + '-' + ... that are not members lie in the key range"""
    return isinstance(k, str) and k.startswith(prefix + '-') and not is_member(k, prefix) and prefix + '-000000000000000' < k < prefix + '-999999999999999'


def membership(w, x, P):
    prefix = P.get('prefix')
    if prefix is None:
        return in_range
    members = [w.bind(k) for k in QPOOL if is_member(k, prefix)]

    def inr(it):
        return And(it.present, EqR(it.c['raw'].num, 1), OrL(cell_eq(it.c['key'], m) for m in members))
    return inr


def prefix_ctx(w, P, **kw):
    x = Ctx(w, P, keypool=QPOOL, tags=False, **kw)
    prefix = P['prefix']
    if 'queue-prefix-extension' in P.get('exclude', []):
        for rv in x.s.rowvars:
            if in_known_region(rv['key'].pykey, prefix):
                assume(False)
    return x


@directive_aware
def ob_push(w, P):
    x = Ctx(w, P)
    c = x.c
    assume_margin(x)
    side = P.get('side', 'back')
    val = x.s.v_int('val', -2 ** 40, 2 ** 40)
    expire = x.opt_real('exp')
    st, ret = x.call(c.push, val, side=side, expire=expire)
    now = x.times[0]
    items = [it for it in x.T0.items if it.present is not False]
    q = [in_range(it) for it in items]
    anyq = OrL(q)
    ext = None
    for it, inq in zip(items, q):
        if ext is None:
            ext = it.c['key'].num
            have = inq
            ext = IfR(inq, it.c['key'].num, 0)
        else:
            better = And(inq, Or(Not(have), LtR(ext, it.c['key'].num) if side == 'back' else LtR(it.c['key'].num, ext)))
            ext = IfR(better, it.c['key'].num, ext)
            have = Or(have, inq)
    if ext is None:
        expected = 500000000000000
    else:
        expected = IfR(anyq, AddR(ext, 1) if side == 'back' else SubR(ext, 1), 500000000000000)
    x.add('C10', 'push returns the key next to the extreme queue key on that side (or the middle when empty)', EqR(zv(ret), expected))
    kc, rc = Cell(INT, zv(ret)), Cell(INT, 1)
    wr = written_int(now, val, exp_cell(now, expire), CNULL, kc, rc)
    for lab, f in write_with_cull(x.T0, x.T1, kc, rc, wr, now, x.policy, zv(c.cull_limit), zv(c.size_limit), x.volume_bytes()):
        x.add('C10,' + clause_tags(lab), lab, f)
    x.add('C10', 'push never replaces an existing item', Not(x.T0.lookup(kc, rc).present))
    x.inv()
    return x.result()


@directive_aware
def ob_pull(w, P):
    """pull and peek share the specification except for the fate of the returned item"""
    x = prefix_ctx(w, P, sym_cfg=False) if P.get('prefix') is not None else Ctx(w, P, sym_cfg=False)
    inr = membership(w, x, P)
    c = x.c
    side = P.get('side', 'front')
    peek = P.get('peek', False)
    want_exp, want_tag = P.get('expire_time', False), P.get('tag', False)
    fn = c.peek if peek else c.pull
    st, ret = x.call(fn, prefix=P.get('prefix'), side=side, expire_time=want_exp, tag=want_tag)
    try:
        if want_exp and want_tag:
            (k, v), rexp, rtag = ret
        elif want_exp:
            ((k, v), rexp), rtag = ret, None
        elif want_tag:
            ((k, v), rtag), rexp = ret, None
        else:
            (k, v), rexp, rtag = ret, None, None
    except (TypeError, ValueError):
        x.add('C10', 'the result has the documented shape for the requested extras (%r)' % (ret,), False)
        return x.result()
    T0, T1 = x.T0, x.T1
    items = [it for it in T0.items if it.present is not False]
    tfirst = x.times[0] if x.times else None
    tlast = x.times[-1] if x.times else None

    def is_dead_last(it):
        return dead(it, tlast) if tlast is not None else False

    def not_dead_first(it):
        return Not(dead(it, tfirst)) if tfirst is not None else EqI(it.c['expire_time'].cls, NULL)
    conj = []
    if k is None:
        flag('queue_empty')
        x.add('C10', 'default only when no unexpired queue item exists', And(v is None, AndL(Implies(inr(it), is_dead_last(it)) for it in items)))
        for it in items:
            p = T1.lookup(it.c['key'], it.c['raw'])
            conj.append(Implies(inr(it), Not(p.present)))
            conj.append(Implies(And(it.present, Not(inr(it))), And(p.present, same_cols(p, it, CACHE_COLS))))
        x.add('C10,C04', 'expired heads removed, everything outside the queue untouched', AndL(conj))
        x.add('C10', 'no spurious rows', EqI(T1.count(), Count(And(it.present, Not(inr(it))) for it in items)))
    else:
        flag('queue_item')
        kc = w.bind(k)
        tgt = T0.lookup(kc, Cell(INT, 1))
        ok = And(inr(tgt), not_dead_first(tgt), x.value_matches(v, tgt))
        if want_exp:
            ok = And(ok, cell_same(w.bind(rexp), tgt.c['expire_time']))
        if want_tag:
            ok = And(ok, cell_same(w.bind(rtag), tgt.c['tag']))
        x.add('C10,C04,C01', 'returns an unexpired item of this queue with its key and value', ok)
        nrem = []
        for it in items:
            ahead = LtR(it.c['key'].num, tgt.c['key'].num) if side == 'front' else LtR(tgt.c['key'].num, it.c['key'].num)
            skipped = And(inr(it), ahead)
            is_t = cell_eq(it.c['key'], kc)
            p = T1.lookup(it.c['key'], it.c['raw'])
            conj.append(Implies(skipped, And(is_dead_last(it), Not(p.present))))
            gone = skipped if peek else Or(skipped, And(inr(it), is_t))
            conj.append(Implies(And(it.present, Not(gone)), And(p.present, same_cols(p, it, CACHE_COLS))))
            if not peek:
                conj.append(Implies(And(it.present, inr(it), is_t), Not(p.present)))
            nrem.append(And(it.present, gone))
        x.add('C10,C04', 'it is the first unexpired item on that side: only expired items before it are skipped (and removed); ' +
              ('the item stays' if peek else 'the item is removed') + '; nothing else changes', AndL(conj))
        x.add('C10', 'no spurious rows', EqI(T1.count(), sx.SubI(T0.count(), Count(nrem))))
    x.inv()
    return x.result()


@directive_aware
def ob_push_prefix(w, P):
    """push on a string-prefix queue: the new key is prefix-%015d with the number next to the extreme member on that side"""
    x = prefix_ctx(w, P, cull_limit=0)
    c = x.c
    prefix, side = P['prefix'], P.get('side', 'back')
    inr = membership(w, x, P)
    val = x.s.v_int('val', -2 ** 40, 2 ** 40)
    st, ret = x.call(c.push, val, prefix=prefix, side=side)
    now = x.times[0]
    members = sorted(k for k in QPOOL if is_member(k, prefix))
    if side == 'front':
        members.reverse()
    step = 1 if side == 'back' else -1
    expected = '%s-%015d' % (prefix, 500000000000000)
    exp_id = w.intern_text(expected)
    for m in members:  # from the innermost to the extreme one: the last present one decides
        it = x.T0.lookup(w.bind(m), Cell(INT, 1))
        nxt = '%s-%015d' % (prefix, int(m[-15:]) + step)
        exp_id = IfR(it.present, w.intern_text(nxt), exp_id)
    x.add('C10', 'push returns prefix-%015d numbered next to the extreme member of that queue on that side (or the middle when the queue is empty)',
          And(isinstance(ret, str), EqR(w.bind(ret).num, exp_id)) if isinstance(ret, str) else False)
    kc, rc = w.bind(ret), Cell(INT, 1)
    x.add('C10', 'push never replaces an existing item', Not(x.T0.lookup(kc, rc).present))
    new = x.T1.lookup(kc, rc)
    x.add('C10,C03', 'the pushed item is stored under the returned key with its value', And(new.present, EqI(new.c['value'].cls, INT), EqR(new.c['value'].num, zv(val)), EqI(new.c['expire_time'].cls, NULL)))
    x.add('C10,C08', 'every other item (other queues, near misses of the key range, ordinary keys) is untouched', And(unchanged(x.T0, x.T1), EqI(x.T1.count(), sx.AddI(x.T0.count(), 1))))
    x.inv()
    return x.result()


@directive_aware
def ob_push_file(w, P):
    """push of a file-backed value (bytes at or above the threshold, or a stream with read=True) under the directives: a busy lock
    without retry raises Timeout and leaves neither row nor value file; with retry / after a fault / a kill the bookkeeping holds"""
    x = Ctx(w, P, min_file_size=0, kinds=('int',), cull_limit=0)
    c = x.c
    assume_margin(x)
    side = P.get('side', 'back')
    prefix = P.get('prefix')
    if P.get('read'):
        import io
        st, ret = x.call(c.push, io.BytesIO(b'stream-value'), side=side, prefix=prefix, read=True)
    else:
        st, ret = x.call(c.push, b'file-value', side=side, prefix=prefix)
    kc = w.bind(ret)
    new = x.T1.lookup(kc, Cell(INT, 1))
    x.add('C10,C01', 'the pushed item is stored under the returned key with a value file', And(new.present, EqR(new.c['mode'].num, 2), Not(x.T0.lookup(kc, Cell(INT, 1)).present)))
    x.add('C10,C08', 'nothing else changed', And(unchanged(x.T0, x.T1), EqI(x.T1.count(), sx.AddI(x.T0.count(), 1))))
    x.inv()
    return x.result()


def ob_bad_argument(w, P):
    """a call that is rejected because of an invalid argument (an unknown queue side, an expiry that is not a number, a stream
    without read(), a prefix that is not a string) is a failed operation like any other: it changes nothing and leaves no value
    file behind"""
    x = Ctx(w, P, min_file_size=0, kinds=('int',), cull_limit=0)
    c = x.c
    assume_margin(x)
    k, kc, rc = x.key()
    case = P['case']
    x.begin()
    raised = None
    try:
        if case == 'push_side':
            c.push(b'file-value', side='middle')
        elif case == 'push_side_prefix':
            c.push(b'file-value', prefix='a', side='BACK')
        elif case == 'push_expire':
            c.push(b'file-value', expire='soon')
        elif case == 'push_prefix':
            c.push(b'file-value', prefix=5)
        elif case == 'pull_side':
            c.pull(side='middle')
        elif case == 'peek_side':
            c.peek(side='middle')
        elif case == 'set_expire':
            c.set(k, b'file-value', expire='soon')
        elif case == 'add_expire':
            c.add(k, b'file-value', expire='soon')
        elif case == 'set_read':
            c.set(k, None, read=True)  # no read() method
        elif case == 'push_read':
            c.push(None, read=True)
        else:
            raise ValueError(case)
    except (KeyError, TypeError, ValueError, AttributeError) as e:
        raised = e
    x.end()
    x.add('C08', 'the call is rejected (%s)' % type(raised).__name__, raised is not None)
    x.add('C08,C03,C10', 'a call rejected for an invalid argument changes nothing', And(unchanged(x.T0, x.T1), spec.same_count(x.T0, x.T1)))
    x.inv()
    return x.result()


FUNCS = {'ob_bad_argument': ['core.Cache.push', 'core.Cache.pull', 'core.Cache.peek', 'core.Cache.set', 'core.Cache.add', 'core.Disk.store', 'core.Cache._transact'], 'ob_push_file': ['core.Cache.push', 'core.Cache._transact', 'core.Disk.store', 'core.Disk._write', 'core.Disk.remove'], 'ob_push_prefix': ['core.Cache.push', 'core.Cache._row_insert', 'core.Cache._transact'], 'ob_push': ['core.Cache.push', 'core.Cache._row_insert', 'core.Cache._cull', 'core.Cache._transact', 'core.Disk.store'],
         'ob_pull': ['core.Cache.pull', 'core.Cache.peek', 'core.Disk.fetch', 'core.Disk.remove', 'core.Cache._transact']}


def jobs(tier):
    out = []

    def add(func, tags, weight=1, must=(), **P):
        name = func[3:] + '.' + '.'.join('%s=%s' % (k, SHORT.get(v, v)) for k, v in sorted(P.items()))
        out.append(dict(id=name, func=func, params=P, tags=tags.split(','), functions=FUNCS[func], weight=weight, must_reach=list(must)))
    Ns = [2] if tier == 'quick' else [2, 3, 4]
    for N in Ns:
        for side in ('back', 'front'):
            add('ob_push', 'C10,C08,C04', weight=N ** 3, N=N, side=side, policy='least-recently-stored')
            add('ob_push', 'C10,C08,C04', weight=N ** 3, N=N, side=side, policy='none')
            for peek in (False, True):
                add('ob_pull', 'C10,C04,C08,C01', weight=N, must=['queue_empty', 'queue_item'], N=N, side=side, peek=peek)
        for side in ('back', 'front'):
            for peek in (False, True):  # stored expiry times of any sign, 0.0 included
                add('ob_pull', 'C10,C04', weight=N, N=N, side=side, peek=peek, expire_pos=False)
        add('ob_pull', 'C10,C04,C08', N=N, side='front', peek=False, expire_time=True, tag=True)
        add('ob_pull', 'C10,C04,C08', N=N, side='back', peek=True, expire_time=True)
        add('ob_pull', 'C10,C04', N=N, side='front', peek=True, tag=True)
        add('ob_pull', 'C10,C04', N=N, side='back', peek=False, tag=True)
        add('ob_pull', 'C10,C04', N=N, side='front', peek=True, expire_time=True, tag=True)
    for case in ('push_side', 'push_side_prefix', 'push_expire', 'push_prefix', 'pull_side', 'peek_side', 'set_expire', 'add_expire', 'set_read', 'push_read'):
        add('ob_bad_argument', 'C08,C10,C03', weight=2, N=1, case=case)
    for prefix in PREFIXES:
        for side in ('back', 'front'):
            add('ob_push_prefix', 'C10,C08,C03', weight=6, N=2, side=side, prefix=prefix, kinds=('int',))
            for peek in (False, True):
                add('ob_pull', 'C10,C04,C08', weight=6, must=['queue_empty', 'queue_item'], N=2, side=side, peek=peek, prefix=prefix, kinds=('int',))
    for extra in (dict(), dict(read=True), dict(prefix='a', side='front')):
        nm = 'push_file' + ''.join('.%s=%s' % kv for kv in sorted(extra.items()))
        F_ = FUNCS['ob_push_file']
        out.append(dict(id=nm + '.busy.noretry', func='ob_push_file', params=dict(N=1, busy=1, **extra), tags=['C14', 'C08'], functions=F_, weight=2, must_reach=['timeout_raised']))
        out.append(dict(id=nm + '.busy.retry', func='ob_push_file', params=dict(N=1, busy=1, retry=True, **extra), tags=['C14', 'C10', 'C01'], functions=F_, weight=6, must_reach=['lock_busy'], all_clauses=True))
        out.append(dict(id=nm + '.fault', func='ob_push_file', params=dict(N=1, fault=True, **extra), tags=['C08'], functions=F_, weight=10, only_tags=['C08', 'FAULT']))
        out.append(dict(id=nm + '.kill', func='ob_push_file', params=dict(N=1, crash=True, **extra), tags=['C07'], functions=F_, weight=20, must_reach=['crashed']))
    for func, P in (('ob_push', dict(side='back', policy='least-recently-stored')), ('ob_pull', dict(side='front', peek=False)), ('ob_pull', dict(side='front', peek=True))):
        nm = func[3:] + ('.peek' if P.get('peek') else '')
        out.append(dict(id=nm + '.busy.noretry', func=func, params=dict(N=2, busy=1, **P), tags=['C14', 'C08'], functions=FUNCS[func], weight=2, must_reach=['timeout_raised']))
        out.append(dict(id=nm + '.busy.retry', func=func, params=dict(N=2, busy=1, retry=True, **P), tags=['C14'], functions=FUNCS[func], weight=10, must_reach=['lock_busy'], all_clauses=True))
        out.append(dict(id=nm + '.fault', func=func, params=dict(N=2, fault=True, **P), tags=['C08'], functions=FUNCS[func], weight=20, only_tags=['C08', 'FAULT']))
        out.append(dict(id=nm + '.kill', func=func, params=dict(N=2, crash=True, **P), tags=['C07'], functions=FUNCS[func], weight=40, must_reach=['crashed']))
    return out
