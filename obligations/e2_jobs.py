"""Job list of the E2 (CrossHair) obligations."""

C01_F = ['core.Disk.store', 'core.Disk._write', 'core.Disk.fetch', 'core.Disk.filename']
C02_F = ['core.Disk.put', 'core.Disk.get']
C13_F = ['core.Disk.hash', 'core.Disk.put']
C16_F = ['core.args_to_key']
C10_F = ['core.Cache.push', 'core.Cache.pull', 'core.Cache.peek']


def jobs(tier):
    out = []
    b = 240 if tier == 'quick' else 900

    def add(module, func, tags, functions, budget=b, **extra):
        out.append(dict(id='e2.%s.%s' % (module.split('.')[-1], func), engine='E2', module=module, func=func, params={'engine': 'CrossHair', 'per_condition_timeout_s': budget},
                        tags=tags.split(','), functions=functions, budget_s=budget, weight=50, twin=False, **extra))
    for f in ('rt_str_pool', 'rt_graph', 'rt_str', 'rt_str_file', 'rt_bytes', 'rt_int', 'rt_stream', 'rt_float', 'rt_float_special', 'rt_misc'):
        add('obligations.ch.disk_rt', f, ('C01,C08,C17' if f in ('rt_str', 'rt_str_file') else 'C01,C08') if f in ('rt_str', 'rt_str_file', 'rt_bytes', 'rt_stream') else ('C01,C03' if f in ('rt_misc', 'rt_float_special') else 'C01'), C01_F)
    add('obligations.ch.disk_rt', 'rt_json', 'C01,C02', C01_F + ['core.JSONDisk.put', 'core.JSONDisk.get', 'core.JSONDisk.store', 'core.JSONDisk.fetch'])
    add('obligations.ch.disk_rt', 'json_keys_distinct', 'C02', ['core.JSONDisk.put'])
    for f in ('key_rt_int', 'key_rt_str', 'key_rt_bytes', 'key_rt_boundary', 'key_put_float', 'alias_int_int', 'alias_int_float_boundary',
              'alias_str_bytes', 'alias_str_str', 'alias_bytes_bytes', 'alias_native_vs_pickled', 'alias_bytes_equal_to_pickle'):
        add('obligations.ch.keys', f, 'C02,C12' if f in ('key_rt_int', 'key_rt_boundary', 'key_put_float') else 'C02', C02_F)
    for f in ('route_equal_int_float', 'route_pure_str', 'route_pure_bytes', 'route_pure_int'):
        add('obligations.ch.keys', f, 'C13,C15' if f in ('route_pure_str', 'route_pure_bytes') else 'C13', C13_F)
    for f in ('shape_2_0__2_0', 'shape_1_0__2_0', 'shape_3_0__1_1', 'shape_3_0__1_1_str', 'shape_1_1__1_1', 'shape_0_2__0_2_order',
              'shape_typed_int_float', 'shape_ignore', 'base_distinct'):
        add('obligations.ch.memo', f, 'C16', C16_F)
    for f in ('fmt_put_int', 'fmt_put_str', 'fmt_put_bytes', 'fmt_put_other', 'fmt_store_str', 'fmt_store_bytes', 'fmt_store_int', 'fmt_read_baseline_text', 'fmt_constants', 'fmt_json'):
        add('obligations.ch.fmt', f, 'C18', ['core.Disk.put', 'core.Disk.get', 'core.Disk.hash', 'core.Disk.store', 'core.Disk.fetch', 'core.Disk.filename'])
    add('obligations.ch.prefix', 'isolation', 'C10', C10_F, budget=max(b, 200))
    add('obligations.ch.prefix', 'own_keys_in_range', 'C10', C10_F, budget=max(b, 200))
    return out
