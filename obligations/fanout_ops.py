"""C13 (delegation) / C14 (sharded caches report instead of raising): the real FanoutCache methods over recording
stub shards.  Found by introspection: every public key-addressed method must call exactly one shard, the one at
hash(key) % shards, with the caller's arguments in the right positions, and return its result unchanged (or the
documented fallback on Timeout); every aggregate must visit every shard exactly once and combine in shard order."""
import inspect

import z3

from symdc import sx, env
from symdc.sx import And, Or, Not, Implies, EqI, EqR, AndL, OrL, simp
from symdc.zpath import I, R, B, assume, flag, Ctx as ZCtx
from obligations.cache_ops import zv, is_num_like

MASK = 0xFFFFFFFF
KEYED = ['set', '__setitem__', 'touch', 'add', 'incr', 'decr', 'get', '__getitem__', 'read', '__contains__', 'pop', 'delete', '__delitem__']
AGG = ['check', 'expire', 'evict', 'cull', 'clear', 'stats', 'volume', 'close', '__iter__', '__reversed__', '__len__', 'reset', 'create_tag_index', 'drop_tag_index', 'transact']
FALLBACK = {'set': False, 'touch': False, 'add': False, 'incr': None, 'decr': None, 'get': 'default', 'pop': 'default', 'delete': False}


class Shard:
    def __init__(self, world, core, i, timeouts, results):
        self.w, self.core, self.i = world, core, i
        self.calls = []
        self.timeouts = timeouts  # list of symbolic bools consumed per call
        self.results = results
        self.disk = core.Disk('/m', 0, 4)
        self.timeout = 0.01

    def _do(self, name, args, kwargs):
        real = getattr(self.core.Cache, name)
        ba = inspect.signature(real).bind(self, *args, **kwargs)
        ba.apply_defaults()
        rec = dict(ba.arguments)
        rec.pop('self', None)
        self.calls.append((name, rec))
        self.w.trace.append((self.i, name))
        if self.timeouts is not None and self.timeouts(self.i, name):
            flag('shard_timeout')
            raise self.core.Timeout(self.results('partial', self.i, name))
        return self.results('ok', self.i, name)

    def __getattr__(self, name):
        if name.startswith('__') and name not in ('__setitem__', '__getitem__', '__delitem__', '__contains__', '__len__', '__iter__', '__reversed__'):
            raise AttributeError(name)

        def f(*a, **k):
            return self._do(name, a, k)
        return f

    def __setitem__(self, k, v):
        return self._do('__setitem__', (k, v), {})

    def __getitem__(self, k):
        return self._do('__getitem__', (k,), {})

    def __delitem__(self, k):
        return self._do('__delitem__', (k,), {})

    def __contains__(self, k):
        return self._do('__contains__', (k,), {})

    def __len__(self):
        return self._do('__len__', (), {})

    def __iter__(self):
        return iter(self._do('__iter__', (), {}))

    def __reversed__(self):
        return iter(self._do('__reversed__', (), {}))


class W:
    """tiny world for the stub-shard obligations (no database)"""

    def __init__(self, w):
        self.w = w
        self.trace = []


def mk_fanout(w, n, timeouts, results):
    L = w.L
    fc = L.fanout.FanoutCache.__new__(L.fanout.FanoutCache)
    tw = W(w)
    fc._count = n
    fc._directory = '/m'
    fc._disk = L.core.Disk
    fc._shards = tuple(Shard(tw, L.core, i, timeouts, results) for i in range(n))
    fc._hash = fc._shards[0].disk.hash
    fc._caches, fc._deques, fc._indexes = {}, {}, {}
    return fc, tw


SHARD_COUNTS = [1, 2, 3, 8, 13]


def ob_keyed(w, P):
    """one key-addressed method"""
    name = P['method']
    L = w.L
    cl = []
    ni = int(w.int('shards_i', 0, len(SHARD_COUNTS) - 1))
    n = SHARD_COUNTS[ni]
    key = w.int('key', -2 ** 63, 2 ** 63 - 1)
    t_out = w.bool('timeout')
    res = w.int('result', -2 ** 40, 2 ** 40)

    def timeouts(i, nm):
        return bool(t_out)

    def results(kind, i, nm):
        return res
    fc, tw = mk_fanout(w, n, timeouts, results)
    meth = getattr(L.fanout.FanoutCache, name)
    sig = inspect.signature(meth)
    params = [p for p in sig.parameters if p != 'self']
    # distinct symbolic values for every parameter so that a swap is visible
    vals = {}
    for j, p in enumerate(params):
        if p == 'key':
            vals[p] = key
        elif p == 'retry':
            vals[p] = bool(w.bool('retry'))
        else:
            vals[p] = w.int('arg_' + p, 100 * (j + 1), 100 * (j + 1) + 50)
    raised = None
    keyerr = False
    try:
        ret = meth(fc, *[vals[p] for p in params])
    except L.core.Timeout as e:
        raised = e
        ret = None
    except KeyError:
        if name != 'read':
            raise
        keyerr = True
        ret = None
    calls = [(s.i, c) for s in fc._shards for c in s.calls]
    cl.append(('C13', 'exactly one shard is called', len(calls) == 1))
    if len(calls) == 1:
        i, (cname, rec) = calls[0]
        exp_index = (key.z % MASK) % n
        cl.append(('C13', 'the shard is hash(key) % shards', sx.zB(sx._fold(exp_index == i))))
        target = {'read': 'get'}.get(name, name)
        cl.append(('C13', 'the same operation is delegated', cname == target))
        # every argument of the caller arrives under the same parameter name
        okargs = []
        for p in params:
            if p in rec:
                a, b = vals[p], rec[p]
                okargs.append(a is b if not is_num_like(a) or isinstance(a, bool) else EqR(zv(a), zv(b)) if is_num_like(b) and not isinstance(b, bool) else False)
        if name == 'read':
            okargs.append(rec.get('read') is True)
        cl.append(('C13', 'arguments arrive in the right positions', AndL(okargs)))
    timed_out = any(True for s in fc._shards for c in s.calls) and bool(t_out)
    if timed_out:
        flag('timed_out')
        if name in FALLBACK:
            fb = FALLBACK[name]
            exp = vals.get('default') if fb == 'default' else fb
            if name == 'read':
                exp = None
            cl.append(('C14', 'a sharded data operation never raises Timeout', raised is None))
            if raised is None:
                if exp is None or isinstance(exp, bool):
                    cl.append(('C14', 'on a shard timeout the documented fallback is returned', ret is exp))
                else:
                    cl.append(('C14', 'on a shard timeout the caller default is returned', EqR(zv(ret), zv(exp)) if is_num_like(ret) else False))
        elif name == 'read':
            cl.append(('C14', 'read() of a key whose shard timed out reports KeyError, not Timeout', keyerr and raised is None))
        else:
            # operator forms use retry=True on the shard: a Timeout can only come from a shard that ignores retry
            cl.append(('C14', 'operator forms ask the shard to retry', any(c[1][1].get('retry') is True or 'retry' not in c[1][1] for c in calls)))
    else:
        if name == '__contains__':
            cl.append(('C13', 'membership is the truth value of the shard result', isinstance(ret, bool) and sx.zB(sx._fold((res.z != 0) == ret))))
        else:
            cl.append(('C13', 'the shard result is returned unchanged', (ret is res) or (is_num_like(ret) and sx.simp(EqR(zv(ret), zv(res))) is True) or name in ('__setitem__', '__delitem__')))
    flag('nontrivial')
    return cl


def ob_aggregate(w, P):
    name = P['method']
    L = w.L
    cl = []
    n = P.get('shards', 3)
    per = [w.int('res%d' % i, 0, 2 if name == '__len__' else 1000) for i in range(n)]
    part = [w.int('part%d' % i, 0, 1000) for i in range(n)]
    tmo = [w.bool('timeout%d' % i) for i in range(n)]
    tmo2 = [w.bool('timeout_again%d' % i) for i in range(n)]
    part2 = [w.int('part_again%d' % i, 0, 1000) for i in range(n)]
    fired = {}
    decided = {}

    def timeouts(i, nm):
        """a shard may time out once -- or, with `twice`, a second time on the attempt that follows"""
        if not P.get('with_timeouts'):
            return False
        k = decided.get(i, 0)
        if k == 0 or (k == 1 and P.get('twice') and fired.get(i) == 1):
            decided[i] = k + 1
            t = bool((tmo, tmo2)[k][i])
            if t:
                fired[i] = k + 1
                if k == 1:
                    flag('timed_out_twice')
            return t
        return False

    def results(kind, i, nm):
        if nm in ('__iter__', '__reversed__'):
            return [per[i], per[i] + 1]
        if nm == 'stats':
            return (per[i], part[i])
        if nm == 'check':
            return ['w%d' % i]
        if nm == 'transact':
            import contextlib
            return contextlib.nullcontext()
        if kind == 'partial':
            return part2[i] if fired.get(i) == 2 else part[i]
        return per[i]
    fc, tw = mk_fanout(w, n, timeouts, results)
    meth = getattr(L.fanout.FanoutCache, 'reset' if name == 'reset_reload' else name)
    if P.get('busy'):
        # a read-only aggregate meets a shard whose lock is held: it may raise Timeout (loud) or wait and cover the shard, but it
        # must not return normally a result that leaves the shard out
        try:
            ret = list(meth(fc)) if name in ('__iter__', '__reversed__') else meth(fc)
        except L.core.Timeout:
            flag('timeout_propagated')
            flag('nontrivial')
            return [('C13,C17', 'an aggregate that cannot cover a busy shard raises Timeout', True)]
    elif name == 'evict':
        ret = meth(fc, 7)
    elif name == 'reset':
        ret = meth(fc, 'cull_limit', 5)
    elif name == 'reset_reload':
        ret = meth(fc, 'cull_limit')  # no value: reload the setting -- on every shard
    elif name == 'transact':
        with meth(fc):
            pass
        ret = None
    elif name in ('__iter__', '__reversed__'):
        ret = list(meth(fc))
    else:
        ret = meth(fc)
    order = [i for i, nm in tw.trace]
    first_visit = []
    for i in order:
        if i not in first_visit:
            first_visit.append(i)
    exp_order = list(range(n)) if name != '__reversed__' else list(reversed(range(n)))
    cl.append(('C13', 'every shard is visited, in shard order', first_visit == exp_order))
    counts = {i: order.count(i) for i in range(n)}
    if P.get('busy'):
        pass
    elif P.get('with_timeouts'):
        cl.append(('C13,C14', 'a shard is called again only after it timed out', all(counts[i] == 1 + fired.get(i, 0) for i in range(n))))
    else:
        cl.append(('C13', 'every shard is visited exactly once', all(counts[i] == 1 for i in range(n))))
    if name in ('expire', 'evict', 'cull', 'clear'):
        total = 0
        for i in range(n):
            total = sx.AddR(total, zv(per[i]))
            if fired.get(i):
                total = sx.AddR(total, zv(part[i]))
            if fired.get(i) == 2:
                total = sx.AddR(total, zv(part2[i]))
        cl.append(('C13,C14', 'bulk removals add up the per-shard counts (including what a timed-out attempt had already removed)', EqR(zv(ret), total)))
        for s in fc._shards:
            for cname, rec in s.calls:
                if name == 'evict':
                    cl.append(('C13', 'the tag is passed on', rec.get('tag') == 7))
        if name == 'expire':
            nows = [rec.get('now') for s in fc._shards for cname, rec in s.calls]
            cl.append(('C04,C13', 'one clock reading is passed to every shard', all(a is nows[0] for a in nows)))
    elif name in ('volume', '__len__'):
        total = 0
        for i in range(n):
            total = sx.AddR(total, zv(per[i]))
        cl.append(('C13', 'totals are the sums over the shards', EqR(zv(ret), total)))
    elif name == 'stats':
        h = m = 0
        for i in range(n):
            h, m = sx.AddR(h, zv(per[i])), sx.AddR(m, zv(part[i]))
        cl.append(('C13', 'statistics are the sums over the shards', And(EqR(zv(ret[0]), h), EqR(zv(ret[1]), m))))
    elif name == 'check':
        cl.append(('C13,C17', 'check concatenates the per-shard warnings in shard order', ret == ['w%d' % i for i in range(n)]))
    elif name in ('__iter__', '__reversed__'):
        exp = []
        for i in exp_order:
            exp.extend([per[i], per[i] + 1])
        cl.append(('C13', 'iteration concatenates the shards', len(ret) == len(exp) and all(sx.simp(EqR(zv(a), zv(b))) is True for a, b in zip(ret, exp))))
    flag('nontrivial')
    return cl


def ob_init(w, P):
    """FanoutCache.__init__ divides size_limit among the shards and names them %03d; deque()/index() use policy none"""
    L = w.L
    cl = []
    made = []

    class RecCache:
        def __init__(self, directory=None, timeout=60, disk=None, **settings):
            self.directory, self.timeout, self.disk_cls, self.settings = directory, timeout, disk, settings
            self.disk = L.core.Disk('/m', 0, 4)
            made.append(self)
    old = L.fanout.Cache
    L.fanout.Cache = RecCache
    try:
        ni = int(w.int('shards_i', 0, len(SHARD_COUNTS) - 1))
        n = SHARD_COUNTS[ni]
        limit = w.int('size_limit', 0, 2 ** 50)
        given = bool(w.bool('limit_given'))
        cullv = w.int('cull_limit', 0, 100)
        kw = dict(cull_limit=cullv)
        if given:
            kw['size_limit'] = limit
        fc = L.fanout.FanoutCache('/m', shards=n, timeout=0.5, **kw)
        cl.append(('C13,C09', 'one shard per index', len(made) == n))
        for i, c in enumerate(made):
            cl.append(('C13,C18', 'shard directories are named %03d', c.directory == '/m/%03d' % i))
            sl = c.settings.get('size_limit')
            if given:
                # Python float division: exact equality of sl * n with the total within rounding is outside; for the
                # integer-time encoding we require the quotient relation  sl == limit / n  symbolically
                ok = isinstance(sl, (R, I)) or is_num_like(sl)
                cl.append(('C09,C13', 'each shard gets size_limit / shards', ok and sx.zB(sx._fold(zv(sl) * n == zv(limit))) if sx.isz(zv(sl)) or sx.isz(zv(limit)) else (sl * n == limit)))
            else:
                cl.append(('C09,C13', 'each shard gets the default size_limit / shards', sl == 2 ** 30 / n))
            cl.append(('C13', 'other settings are passed to every shard', c.settings.get('cull_limit') is cullv and c.timeout == 0.5))
        before = len(made)
        dq = fc.deque('d')
        ix = fc.index('i')
        cl.append(('C11,C12,C13', 'deque()/index() create caches that never evict', [c.settings.get('eviction_policy') for c in made[before:]] == ['none', 'none']))
        cl.append(('C13,C18', 'named sub-structures live in fixed sub-directories', [c.directory for c in made[before:]] == ['/m/deque/d', '/m/index/i']))
        cl.append(('C13', 'the same name yields the same object', fc.deque('d') is dq and fc.index('i') is ix))
    finally:
        L.fanout.Cache = old
    flag('nontrivial')
    return cl


def ob_route_history(w, P):
    """the shard of a key does not depend on which keys were routed before: FanoutCache built by the real __init__
    (shards stubbed), keys that Python considers equal but that are distinct entries (or one entry) routed in sequence"""
    L = w.L
    cl = []

    class RecCache:
        def __init__(self, directory=None, timeout=60, disk=None, **settings):
            self.disk = L.core.Disk('/m', 0, 4)
    old = L.fanout.Cache
    L.fanout.Cache = RecCache
    try:
        pool = [0, 1, -1, 2, 2 ** 53]
        a = pool[int(w.int('a_i', 0, len(pool) - 1))]
        variant = int(w.int('variant', 0, 4))
        n = SHARD_COUNTS[int(w.int('shards_i', 0, len(SHARD_COUNTS) - 1))]
        pairs = [(a, float(a)), ((a, 'u'), (float(a), 'u')), (1, True), ((float(a), 'u'), (a, 'u')), ((1, 'u'), (True, 'u'))]
        k1, k2 = pairs[variant]
        fc = L.fanout.FanoutCache('/m', shards=n)
        fc._hash(k1)
        h = fc._hash(k2)
        ref = L.core.Disk('/other', 0, 4).hash(k2)
        cl.append(('C13', 'the shard of a key is a function of the key alone (not of the keys routed before)', h == ref and h % n == ref % n))
    finally:
        L.fanout.Cache = old
    flag('nontrivial')
    return cl


def ob_fanout_busy_lookup(w, P):
    """a real 2-shard FanoutCache on model databases, configured so that a lookup needs the write lock (statistics on, or a
    policy that records accesses); the shard's lock is busy for the first k BEGIN attempts.  The entry points that are
    documented to wait (indexing, read) return the present key's value -- never KeyError, never Timeout; get() without retry
    reports the default and changes nothing; with retry=True it waits."""
    from symdc.state import Nullable
    L = w.L
    pol, stats = P.get('policy', 'least-recently-stored'), P.get('statistics', 1)
    w.clock_fn = lambda: 0.0
    try:
        fc = L.fanout.FanoutCache(w.dir, shards=2, cull_limit=0, eviction_policy=pol, statistics=stats)
        for sh in fc._shards:
            sh._con
    finally:
        w.clock_fn = None
    val = w.int('value', -2 ** 40, 2 ** 40)
    key = int(w.int('key', 0, 3))
    si = (key % 0xFFFFFFFF) % 2
    w.install_rows(fc._shards[si], [dict(rowid=1, key=key, raw=1, store_time=0, access_time=0, access_count=0, expire_time=Nullable(True, 0), tag=None, size=0, mode=1,
                                          filename=None, value=val, _alive=True, _tb=0)])
    kk = w.int('busy_k', 1, 2)
    cnt = [0]

    def hook(con):
        cnt[0] += 1
        flag('lock_busy')
        return bool(kk >= cnt[0])
    for sh in fc._shards:
        w.set_busy_hook(sh, hook)
    how = P['how']
    if how == 'get_reads_blocked':
        # a lock that blocks reads too (rollback-journal mode with an exclusive writer): the lock-free lookup itself fails with
        # 'database is locked' -- the sharded cache still reports the default instead of raising
        for sh in fc._shards:
            w.set_busy_hook(sh, None)
            w.set_busy_all_hook(sh, lambda con, sql: True)
        w.start_events()
        try:
            r = ('ok', fc.get(key, default=-7))
        except Exception as e:
            r = (type(e).__name__, None)
        w.stop_events()
        flag('nontrivial')
        return [('C14,C13', 'a lookup that cannot read because the database is locked reports the default, it does not raise (%s)' % r[0], r[0] == 'ok' and is_num_like(r[1]) and EqR(zv(r[1]), -7))]
    w.start_events()
    try:
        if how == 'getitem':
            r = ('ok', fc[key])
        elif how == 'read':
            r = ('ok', fc.read(key))
        elif how == 'get_retry':
            r = ('ok', fc.get(key, default=-7, retry=True))
        elif how == 'get':
            r = ('ok', fc.get(key, default=-7))
        elif how == 'contains':
            r = ('ok', key in fc)
    except KeyError:
        r = ('keyerror', None)
    except L.core.Timeout:
        r = ('timeout', None)
    w.stop_events()
    cl = []
    if how == 'get':
        cl.append(('C14,C13', 'get without retry returns the value or the default -- no exception, nothing else', r[0] == 'ok' and is_num_like(r[1]) and Or(EqR(zv(r[1]), -7), EqR(zv(r[1]), zv(val)))))
    elif how == 'contains':
        cl.append(('C14,C13', 'membership needs no lock', r == ('ok', True)))
    else:
        cl.append(('C14,C13', 'a lookup that is documented to wait for the lock returns the value of a present key (%s)' % r[0], r[0] == 'ok' and is_num_like(r[1]) and EqR(zv(r[1]), zv(val))))
        cl.append(('C14', 'the lock really was busy', cnt[0] > 0))
    flag('nontrivial')
    return cl

def jobs(tier):
    out = []
    F = ['fanout.FanoutCache.' + m for m in KEYED + AGG] + ['fanout.FanoutCache._remove', 'core.Disk.hash']
    for m in KEYED:
        out.append(dict(id='fanout.keyed.%s' % m, func='ob_keyed', params=dict(method=m), tags=['C13', 'C14'], functions=F, weight=3, twin=False))
    for m in AGG + ['reset_reload']:
        out.append(dict(id='fanout.agg.%s' % m, func='ob_aggregate', params=dict(method=m), tags=['C13', 'C14', 'C04', 'C17'], functions=F, weight=2, twin=False))
    for m in ('expire', 'evict', 'cull', 'clear'):
        out.append(dict(id='fanout.agg.%s.timeouts' % m, func='ob_aggregate', params=dict(method=m, with_timeouts=True), tags=['C13', 'C14'], functions=F, weight=4, twin=False))
        out.append(dict(id='fanout.agg.%s.timeouts_twice' % m, func='ob_aggregate', params=dict(method=m, with_timeouts=True, twice=True, shards=2), tags=['C13', 'C14'], functions=F, weight=4, twin=False,
                        must_reach=['timed_out_twice']))
    for m in ('check', '__len__', 'volume', 'stats', '__iter__'):
        out.append(dict(id='fanout.agg.%s.busy' % m, func='ob_aggregate', params=dict(method=m, with_timeouts=True, busy=True), tags=['C13', 'C17', 'C14'], functions=F, weight=4, twin=False,
                        must_reach=['shard_timeout']))
    out.append(dict(id='fanout.busy.get_reads_blocked', func='ob_fanout_busy_lookup', params=dict(how='get_reads_blocked', policy='least-recently-stored', statistics=0), tags=['C13', 'C14'],
                    functions=['fanout.FanoutCache.get', 'core.Cache.get'], weight=2, twin=False))
    for how in ('getitem', 'read', 'get_retry', 'get', 'contains'):
        for pol, st in (('least-recently-used', 0), ('least-recently-stored', 1)):
            out.append(dict(id='fanout.busy.%s.%s.%d' % (how, pol.split('-')[-1], st), func='ob_fanout_busy_lookup', params=dict(how=how, policy=pol, statistics=st), tags=['C13', 'C14'],
                            functions=['fanout.FanoutCache.__getitem__', 'fanout.FanoutCache.read', 'fanout.FanoutCache.get', 'core.Cache.get'], weight=3, twin=False))
    out.append(dict(id='fanout.init', func='ob_init', params={}, tags=['C13', 'C09', 'C11', 'C12', 'C18'], functions=['fanout.FanoutCache.__init__', 'fanout.FanoutCache.deque', 'fanout.FanoutCache.index'],
                    weight=3, twin=False))
    out.append(dict(id='fanout.route_history', func='ob_route_history', params={}, tags=['C13'], functions=['fanout.FanoutCache.__init__', 'core.Disk.hash'], weight=3, twin=False))
    out.append(dict(id='fanout.introspection', func='ob_introspection', params={}, tags=['C13', 'C14'], functions=[], weight=1, twin=False))
    return out


def ob_introspection(w, P):
    """every public method of FanoutCache is covered by a delegation obligation (a new method without one is reported)"""
    L = w.L
    names = [n for n, f in vars(L.fanout.FanoutCache).items() if callable(f) and (not n.startswith('_') or n in ('__setitem__', '__getitem__', '__delitem__', '__contains__', '__iter__', '__reversed__', '__len__'))]
    known = set(KEYED) | set(AGG) | {'cache', 'deque', 'index', 'memoize', 'directory'}
    missing = [n for n in names if n not in known]
    flag('nontrivial')
    return [('C13,C14', 'every public FanoutCache method has a delegation obligation (uncovered: %s)' % missing, not missing)]
