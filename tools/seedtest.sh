#!/bin/bash
# usage: tools/seedtest.sh <patch.diff> <PROP> [tier] [extra run args...]
# applies the patch to a scratch worktree of /repo HEAD (outside /repo and /verif), runs ./run PROP with VERIF_REPO, removes the worktree
patch=$1; prop=$2; tier=${3:-quick}; shift 3 2>/dev/null
wt=$(mktemp -d /tmp/seedtest.XXXXXX)
git -C /repo worktree add -q --detach $wt HEAD || exit 9
if ! git -C $wt apply $patch 2>/tmp/seedtest.err && ! git -C $wt apply -3 $patch 2>/tmp/seedtest.err; then echo "PATCH DOES NOT APPLY to current HEAD: $(cat /tmp/seedtest.err | head -2)"; git -C /repo worktree remove --force $wt; exit 8; fi
( cd /verif && VERIF_REPO=$wt VERIF_OUT=$wt/.verif_out ./run $prop $tier "$@" ); rc=$?
git -C /repo worktree remove --force $wt
exit $rc
