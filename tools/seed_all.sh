#!/bin/bash
# runs every seeded change under /verif/seeded (or /tmp/mut during collection) against the quick check of its property
src=${1:-/verif/seeded}
for d in $src/*/; do
  id=$(basename $d); prop=$(python3 -c "import json;print(json.load(open('$d/meta.json'))['property'])" 2>/dev/null || echo ${id:0:3})
  p=$d/patch.diff; [ -f $p ] || p=$d/seed_out/patch.diff
  out=$(/verif/tools/seedtest.sh $p $prop quick 2>&1 | grep -v KNOWN-FINDING | tail -40)
  v=$(echo "$out" | grep -c "^VIOLATION"); s=$(echo "$out" | grep -E "^$prop quick:" | tail -1)
  echo "$id $prop violations=$v :: $s"
  echo "$out" | grep "obligation" | head -3 | cut -c1-200
done
