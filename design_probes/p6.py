from typing import Optional
import diskcache.core as core
from p4 import Clock
from p5 import DB, MC, mkrows

def body(rs, key, now, cull_limit, size_limit, pagecount):
    ks = [r[0] for r in rs]
    for i in range(len(ks)):
        for j in range(i):
            if ks[i] == ks[j]: return True
    rows = mkrows(rs)
    db = DB(rows, pagecount)
    c = MC(db, 'least-recently-stored', cull_limit, size_limit)
    core.time = Clock(now)
    pre = [dict(r) for r in rows]
    c.set(key, 42)
    cur = [dict(r) for r in pre]
    hit = [r for r in cur if r['key'] == key]
    if hit:
        hit[0].update(store_time=now, expire_time=None, access_time=now, access_count=0, value=42)
    else:
        cur.append(dict(key=key, store_time=now, expire_time=None, value=42))
    if len(db.deleted) > cull_limit: return False
    expired = [r for r in cur if r['expire_time'] is not None and r['expire_time'] < now]
    n_exp_removed = sum(1 for r in db.deleted if r['expire_time'] is not None and r['expire_time'] < now)
    if n_exp_removed != min(len(expired), cull_limit): return False
    others = [r for r in db.deleted if not (r['expire_time'] is not None and r['expire_time'] < now)]
    vol = 4096*pagecount + 0
    if others and vol < size_limit: return False
    surv = db.rows
    for o in others:
        for s in surv:
            if o['store_time'] > s['store_time']: return False
    if vol >= size_limit:
        want = min(cull_limit - n_exp_removed, len(cur) - n_exp_removed)
        if len(others) != want: return False
    return True

def n2(k1:int, s1:int, e1:Optional[int], k2:int, s2:int, e2:Optional[int], key:int, now:int, cull_limit:int, size_limit:int, pagecount:int) -> bool:
    """
    pre: 0 <= cull_limit <= 3 and pagecount >= 1 and size_limit >= 0 and -2**63 <= key < 2**63
    post: _
    """
    return body([(k1,s1,e1,0,0),(k2,s2,e2,0,0)], key, now, cull_limit, size_limit, pagecount)

def n3(k1:int, s1:int, e1:Optional[int], k2:int, s2:int, e2:Optional[int], k3:int, s3:int, e3:Optional[int], key:int, now:int, cull_limit:int, size_limit:int, pagecount:int) -> bool:
    """
    pre: 0 <= cull_limit <= 3 and pagecount >= 1 and size_limit >= 0 and -2**63 <= key < 2**63
    post: _
    """
    return body([(k1,s1,e1,0,0),(k2,s2,e2,0,0),(k3,s3,e3,0,0)], key, now, cull_limit, size_limit, pagecount)
