"""Probe: nested interference schedule. A: Index-like cache[key] lookup; B: cache[key] = v2 at symbolic boundary."""
import re
import diskcache.core as core
from diskcache.core import Cache, Disk
from p4 import Cur, Local
import p10
from p10 import MemIO, IOShim

class Sched:
    def __init__(self, at): self.at = at; self.n = 0; self.active = True; self.hook=None; self.ran=False
    def boundary(self, what):
        if not self.active: return
        i = self.n; self.n += 1
        if i == self.at:
            self.active = False; self.ran=True
            self.hook()
            self.active = True
S = None

class DB:
    def __init__(self, rows):
        self.rows = rows; self.count = len(rows); self.locked_by=None; self.rowid=100
    def con(self, who): return Con(self, who)
class Con:
    def __init__(self, db, who): self.db=db; self.who=who
    def execute(self, stmt, params=()):
        S.boundary(('sql', stmt))
        db = self.db
        if stmt == 'BEGIN IMMEDIATE':
            if db.locked_by is not None: raise core.sqlite3.OperationalError('database is locked')
            db.locked_by = self.who; db.snap=[dict(r) for r in db.rows]; return Cur([])
        if stmt == 'COMMIT': db.locked_by=None; return Cur([])
        if stmt == 'ROLLBACK': db.rows = db.snap; db.locked_by=None; return Cur([])
        m = re.match(r'SELECT (.*) FROM Cache WHERE key = \? AND raw = \?( AND \(expire_time IS NULL OR expire_time > \?\))?$', stmt)
        if m:
            cols=[c.strip() for c in m.group(1).split(',')]; k, raw = params[:2]
            return Cur([tuple(r[c] for c in cols) for r in db.rows if r['key']==k and r['raw']==raw])
        if stmt.startswith('UPDATE Cache SET store_time = ?'):
            (st, et, at, ac, tag, size, mode, fn, val, rowid) = params
            for r in db.rows:
                if r['rowid']==rowid: r.update(store_time=st, expire_time=et, tag=tag, size=size, mode=mode, filename=fn, value=val)
            return Cur([])
        if stmt.startswith('INSERT INTO Cache('):
            (k, raw, st, et, at, ac, tag, size, mode, fn, val) = params
            db.rows.append(dict(rowid=db.rowid, key=k, raw=raw, store_time=st, expire_time=et, tag=tag, size=size, mode=mode, filename=fn, value=val)); db.rowid+=1
            return Cur([])
        raise NotImplementedError(stmt)

class OSShim:
    ctr = 0
    def makedirs(self, d): pass
    def urandom(self, n):
        OSShim.ctr += 1
        return bytes([OSShim.ctr])*n
    def remove(self, p):
        S.boundary(('rm', p))
        if p not in p10.fs.files: raise FileNotFoundError(p)
        del p10.fs.files[p]
    def removedirs(self, d): pass

_open = p10.m_open
def s_open(path, mode='r', encoding=None, newline=None):
    S.boundary(('open', path, mode))
    return _open(path, mode, encoding, newline)

class MC(Cache):
    def __init__(self, db, who):
        self._directory='/m'; self._timeout=0; self._local=Local(); self._txn_id=None
        self._disk = Disk('/m', 0, 4); self._mcon=db.con(who)
        self.cull_limit=0; self.eviction_policy='none'; self.statistics=0
    @property
    def _con(self): return self._mcon
class Clock:
    def time(self): return 1000
class Thr:
    def __init__(self): self.cur = 1
    def get_ident(self): return self.cur

def lookup_during_replace(key: int, v1: bytes, v2: bytes, at: int) -> bool:
    """
    pre: len(v1) == 1 and len(v2) == 1 and -5 <= key <= 5
    pre: 0 <= at <= 6
    post: _
    """
    global S
    p10.setup(); core.io = IOShim; core.os = OSShim(); core.open = s_open; core.time = Clock(); thr = Thr(); core.threading = thr
    p10.fs.files['/m/f0'] = v1
    db = DB([dict(rowid=1, key=key, raw=1, store_time=0, expire_time=None, tag=None, size=1, mode=2, filename='f0', value=None)])
    A = MC(db, 'A'); B = MC(db, 'B')
    S = Sched(at)
    def hook():
        thr.cur = 2
        B[key] = v2
        thr.cur = 1
    S.hook = hook
    try:
        r = A[key]
    except KeyError:
        return False       # key was continuously present
    return (r == v1) or (r == v2)
