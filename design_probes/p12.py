"""Probe: throttle rate bound with virtual clock; real recipes.throttle wrapper; dict-backed stub cache."""
import contextlib
from diskcache.recipes import throttle

class StubCache:
    def __init__(self): self.d = {}
    def set(self, key, value, expire=None, tag=None, retry=False): self.d[key] = value; return True
    def get(self, key, default=None): return self.d.get(key, default)
    @contextlib.contextmanager
    def transact(self, retry=False): yield

class VClock:
    def __init__(self, t0): self.t = t0
    def time(self): return self.t
    def sleep(self, d):
        self.t = self.t + d

def rate3(g1: int, g2: int, g3: int) -> bool:
    """
    pre: 0 <= g1 <= 10 and 0 <= g2 <= 10 and 0 <= g3 <= 10
    post: _
    """
    # time unit = 1/4 s ; arrival gaps g_i quarter-seconds; count=2 per 1 s => rate 2/s
    clk = VClock(0.0)
    starts = []
    cache = StubCache()
    @throttle(cache, 2, 1, name='f', time_func=clk.time, sleep_func=clk.sleep)
    def f(): starts.append(clk.t)
    for g in (g1, g2, g3, 0):
        clk.t = clk.t + g / 4
        f()
    # bound: for all i<j: (j-i+1) <= count + rate*(t_j - t_i)
    ok = True
    for i in range(len(starts)):
        for j in range(i, len(starts)):
            if (j - i + 1) > 2 + 2 * (starts[j] - starts[i]) + 1e-9: ok = False
    return ok

def rate2(t1: float, t2: float) -> bool:
    """
    pre: 0 <= t1 <= 10 and t1 <= t2 <= 20
    post: _
    """
    clk = VClock(0.0)
    starts = []
    cache = StubCache()
    @throttle(cache, 1, 1, name='f', time_func=clk.time, sleep_func=clk.sleep)
    def f(): starts.append(clk.t)
    clk.t = t1; f()
    if clk.t < t2: clk.t = t2
    f()
    return starts[1] - starts[0] >= 1 or starts[0] >= 1

def rate2i(t1: int, t2: int) -> bool:
    """
    pre: 0 <= t1 and t1 <= t2
    post: _
    """
    clk = VClock(0)
    starts = []
    cache = StubCache()
    @throttle(cache, 1, 1, name='f', time_func=clk.time, sleep_func=clk.sleep)
    def f(): starts.append(clk.t)
    clk.t = t1; f()
    if clk.t < t2: clk.t = t2
    f()
    return starts[1] - starts[0] >= 1 or starts[0] >= 1
