"""Probe: loader with AST cut (PAGE), tokens for str()/format of proxies, expire() paging tie defect, LRU get."""
import ast, re, sys, types, z3, time as _t
from zdse import Explorer, Ctx, B, PathEnd, R
import p13
from p13 import I, zi, N, znull, MDB, NULLABLE, COLS, sym_type
from p4 import Cur, Local

# ---- loader: compile /repo core.py with PAGE cut
import os as _os
SRC = _os.environ.get('VERIF_REPO', '/repo') + '/diskcache/core.py'
CUT_FUNCS = {'evict','expire','clear','iterkeys','_iter'}
class Cut(ast.NodeTransformer):
    def __init__(self): self.n = 0; self.fn = []
    def visit_FunctionDef(self, node):
        self.fn.append(node.name); self.generic_visit(node); self.fn.pop(); return node
    def visit_Constant(self, node):
        if self.fn and self.fn[-1] in CUT_FUNCS and node.value == 100 and type(node.value) is int:
            self.n += 1
            return ast.copy_location(ast.Name(id='_VERIF_PAGE', ctx=ast.Load()), node)
        return node
tree = ast.parse(open(SRC).read()); cut = Cut(); tree = cut.visit(tree); ast.fix_missing_locations(tree)
core = types.ModuleType('dcsym_core'); core.__dict__['_VERIF_PAGE'] = 1
exec(compile(tree, SRC, 'exec'), core.__dict__)
print('cuts applied:', cut.n)

# ---- tokens
TOK = []
def tok(z):
    TOK.append(z); return '⟦%d⟧' % (len(TOK)-1)
I.__str__ = lambda s: tok(s.z)
I.__format__ = lambda s, spec: tok(s.z)
R.__str__ = lambda s: tok(s.z)
R.__format__ = lambda s, spec: tok(s.z)
def untok(s):
    m = re.fullmatch('⟦(\\d+)⟧', s.strip())
    return TOK[int(m.group(1))] if m else z3.IntVal(int(s))

class MDB2(MDB):
    def execute(self, stmt, params=()):
        m = re.match(r'SELECT rowid, expire_time, filename FROM Cache WHERE \? < expire_time AND expire_time < \? ORDER BY expire_time LIMIT \?$', stmt)
        if m:
            lo, hi, lim = params
            sel=[z3.And(r['alive'], z3.Not(r['expire_time'].null), zi(lo) < r['expire_time'].val, r['expire_time'].val < zi(hi)) for r in self.rows]
            return self.select_ranked(['rowid','expire_time','filename'], sel, lambda r:r['expire_time'].val, lim)
        m = re.match(r'DELETE FROM Cache WHERE rowid IN \(([^S].*)\)$', stmt)
        if m:
            ids = [untok(x) for x in m.group(1).split(',')]
            conds = [z3.And(r['alive'], z3.Or([r['rowid'] == i for i in ids])) for r in self.rows]
            return self.delete_where(conds)
        m = re.match(r'SELECT (.*) FROM Cache WHERE key = \? AND raw = \? AND \(expire_time IS NULL OR expire_time > \?\)$', stmt)
        if m:
            cols=[c.strip() for c in m.group(1).split(',')]; k,raw,now=params
            conds=[z3.And(r['alive'], r['key']==zi(k), r['raw']==zi(raw), z3.Or(r['expire_time'].null, r['expire_time'].val > zi(now))) for r in self.rows]
            if B(z3.Or(conds)): return Cur([self.merged_row(conds, cols)])
            return Cur([])
        m = re.match(r'UPDATE Cache SET access_time = (.*) WHERE rowid = \?$', stmt)
        if m:
            v = untok(m.group(1)); (rowid,) = params
            for r in self.rows:
                r['access_time'] = z3.If(z3.And(r['alive'], r['rowid']==zi(rowid)), v, r['access_time'])
            return Cur([])
        return super().execute(stmt, params)

class MC(core.Cache):
    def __init__(self, con, policy):
        self._directory='/m'; self._timeout=0; self._local=Local(); self._txn_id=None
        self._disk=core.Disk('/m',2**15,4); self._mcon=con
        self.cull_limit=0; self.eviction_policy=policy; self.statistics=0; self.size_limit=2**30; self._page_size=4096
    @property
    def _con(self): return self._mcon
class Clock:
    def __init__(s, ts): s.ts=list(ts)
    def time(s): return s.ts.pop(0) if len(s.ts)>1 else s.ts[0]

def mk(n):
    ks=[z3.Int('k%d'%i) for i in range(n)]; en=[z3.Bool('en%d'%i) for i in range(n)]; ev=[z3.Int('e%d'%i) for i in range(n)]
    at=[z3.Int('a%d'%i) for i in range(n)]
    def build():
        ex=Ctx.cur; del TOK[:]
        if n>1: ex.pc.append(z3.Distinct(ks))
        rows=[dict(rowid=i+1,key=I(ks[i]),raw=1,store_time=0,expire_time=None,access_time=I(at[i]),access_count=0,tag=None,size=0,mode=1,filename=None,value=7) for i in range(n)]
        db=MDB2(rows, 1)
        for i,r in enumerate(db.rows):
            r['expire_time']=N(en[i], ev[i]); ex.pc.append(z3.Or(en[i], ev[i] > 0))   # absolute expiry positive (finding #4 excluded)
        return db
    return build, en, ev, at, ks

def expire_scn(n):
    build, en, ev, at, ks = mk(n); now=z3.Int('now')
    def scn():
        db=build(); c=MC(db,'least-recently-stored'); core.time=Clock([I(now)]); core.type=sym_type
        Ctx.cur.pc.append(now > 0)
        ret=c.expire(I(now))
        exp=[z3.And(z3.Not(en[i]), ev[i] < now) for i in range(n)]
        ok=z3.And([db.rows[i]['alive'] == z3.Not(exp[i]) for i in range(n)] + [zi(ret) == z3.Sum([z3.If(e,1,0) for e in exp])])
        return B(ok)
    return scn

def lru_get_scn(n):
    build, en, ev, at, ks = mk(n); t1=z3.Int('t1'); t2=z3.Int('t2'); key=z3.Int('key')
    def scn():
        db=build(); c=MC(db,'least-recently-used'); core.time=Clock([I(t1), I(t2)]); core.type=sym_type
        Ctx.cur.pc.extend([t1 <= t2, key >= -2**63, key < 2**63])
        r=c.get(I(key), default=-1)
        live=[z3.And(ks[i]==key, z3.Or(en[i], ev[i] > t1)) for i in range(n)]
        tie=[z3.And(z3.Not(en[i]), ev[i]==t1) for i in range(n)]
        ok=[]
        for i in range(n):
            ok.append(z3.Implies(live[i], z3.And(zi(r)==7, db.rows[i]['access_time']==t2)))
            ok.append(z3.Implies(z3.Not(live[i]), db.rows[i]['access_time']==at[i]))
        ok.append(z3.Implies(z3.Not(z3.Or(live)), zi(r)==-1))
        return B(z3.And(ok))
    return scn

if __name__=='__main__':
    for name,f in [('expire',expire_scn),('lru_get',lru_get_scn)]:
        for n in (1,2,3):
            ex=Explorer(); t=_t.time(); res=ex.run(f(n))
            print(name,'N=%d'%n,res,'paths',ex.paths,'queries',ex.queries,'wall %.1f'%(_t.time()-t))
