"""Probe: zdse engine + merged relational model, real Cache.set/_cull. Compare with p9 (CrossHair)."""
import re, z3, sys, time as _t
import diskcache.core as core
from diskcache.core import Cache, Disk
from zdse import Explorer, Ctx, B, PathEnd, R
from p4 import Cur, Local

class I(R):
    """int proxy"""
    def __add__(s, o): return I(s.z + zi(o))
    __radd__ = __add__
    def __sub__(s, o): return I(s.z - zi(o))
    def __rsub__(s, o): return I(zi(o) - s.z)
    def __mul__(s, o): return I(s.z * zi(o))
    __rmul__ = __mul__
    def __lt__(s, o): return B(s.z < zi(o))
    def __le__(s, o): return B(s.z <= zi(o))
    def __gt__(s, o): return B(s.z > zi(o))
    def __ge__(s, o): return B(s.z >= zi(o))
    def __eq__(s, o): return B(s.z == zi(o))
    def __ne__(s, o): return B(s.z != zi(o))
    def __index__(s):   # realize with fork
        ex = Ctx.cur; sol = z3.Solver(); sol.add(*ex.pc); assert sol.check() == z3.sat
        v = sol.model().eval(s.z, model_completion=True).as_long()
        # binary fork: == v or != v (then recurse)
        if ex.branch(s.z == v): return v
        return s.__index__()
    __int__ = __index__
    __hash__ = None
def zi(x):
    if isinstance(x, R): return x.z
    if isinstance(x, B): return z3.If(x.z, 1, 0)
    return z3.IntVal(int(x))
def sym_type(x):
    if isinstance(x, I): return int
    return type(x)

class N:
    def __init__(self, null, val): self.null=null; self.val=val
def znull(x):
    if x is None: return N(z3.BoolVal(True), z3.IntVal(0))
    return N(z3.BoolVal(False), zi(x))
NULLABLE = {'expire_time','tag','filename'}
COLS = ['rowid','key','raw','store_time','expire_time','access_time','access_count','tag','size','mode','filename','value']

class MDB:
    def __init__(self, rows, pagecount):
        self.rows=[]
        for r in rows:
            zr = {c:(znull(r[c]) if c in NULLABLE else zi(r[c])) for c in COLS}
            zr['alive']=z3.BoolVal(True); zr['deleted']=z3.BoolVal(False); self.rows.append(zr)
        self.count=z3.IntVal(len(rows)); self.size=z3.Sum([r['size'] for r in self.rows]) if rows else z3.IntVal(0)
        self.next_rowid=1000; self.pagecount=pagecount
    def out(self, e, nullable=False):
        if nullable:
            if B(e.null): return None
            return I(e.val)
        return I(e)
    def merged_row(self, conds, cols):
        res=[]
        for c in cols:
            if c in NULLABLE:
                nul=z3.BoolVal(True); val=z3.IntVal(0)
                for cond,r in zip(conds,self.rows): nul=z3.If(cond,r[c].null,nul); val=z3.If(cond,r[c].val,val)
                res.append(self.out(N(nul,val),True))
            else:
                e=z3.IntVal(0)
                for cond,r in zip(conds,self.rows): e=z3.If(cond,r[c],e)
                res.append(self.out(e))
        return tuple(res)
    def ranked(self, sel, keyf, lim):
        n=len(self.rows); ranks=[]
        for i in range(n):
            terms=[]
            for j in range(n):
                if i==j: continue
                kj,ki=keyf(self.rows[j]),keyf(self.rows[i])
                terms.append(z3.If(z3.And(sel[j], z3.Or(kj<ki, z3.And(kj==ki, z3.BoolVal(j<i)))),1,0))
            ranks.append(z3.Sum(terms) if terms else z3.IntVal(0))
        L=zi(lim); inl=[z3.And(sel[i], ranks[i]<L) for i in range(n)]
        cnt=z3.Sum([z3.If(c,1,0) for c in inl]) if inl else z3.IntVal(0)
        return inl,ranks,cnt
    def select_ranked(self, cols, sel, keyf, lim):
        inl,ranks,cnt=self.ranked(sel,keyf,lim)
        c=int(I(cnt)); out=[]
        for j in range(c):
            conds=[z3.And(inl[i], ranks[i]==j) for i in range(len(self.rows))]
            out.append(self.merged_row(conds, cols))
        return Cur(out)
    def delete_where(self, conds):
        for cond,r in zip(conds,self.rows):
            self.count=self.count-z3.If(cond,1,0); self.size=self.size-z3.If(cond,r['size'],0)
            r['deleted']=z3.Or(r['deleted'],cond); r['alive']=z3.And(r['alive'],z3.Not(cond))
        return Cur([])
    def execute(self, stmt, params=()):
        if stmt in ('BEGIN IMMEDIATE','COMMIT','ROLLBACK'): return Cur([])
        if stmt=='PRAGMA page_count': return Cur([(self.pagecount,)])
        if stmt=='SELECT value FROM Settings WHERE key = ?': return Cur([(I(self.size if params[0]=='size' else self.count),)])
        m=re.match(r'SELECT (.*) FROM Cache WHERE key = \? AND raw = \?$', stmt)
        if m:
            cols=[c.strip() for c in m.group(1).split(',')]; k,raw=params
            conds=[z3.And(r['alive'], r['key']==zi(k), r['raw']==zi(raw)) for r in self.rows]
            if B(z3.Or(conds) if conds else z3.BoolVal(False)): return Cur([self.merged_row(conds,cols)])
            return Cur([])
        m=re.match(r'(SELECT (.*)|DELETE) FROM Cache WHERE (rowid IN \(SELECT rowid FROM Cache WHERE )?expire_time IS NOT NULL AND expire_time < \? ORDER BY expire_time LIMIT \?\)?$', stmt)
        if m:
            now,lim=params
            sel=[z3.And(r['alive'], z3.Not(r['expire_time'].null), r['expire_time'].val<zi(now)) for r in self.rows]
            if m.group(1)=='DELETE':
                inl,_,_=self.ranked(sel, lambda r:r['expire_time'].val, lim); return self.delete_where(inl)
            return self.select_ranked([c.strip() for c in m.group(2).split(',')], sel, lambda r:r['expire_time'].val, lim)
        m=re.match(r'(SELECT (.*)|DELETE) FROM Cache (WHERE rowid IN \(SELECT rowid FROM Cache )?ORDER BY (\w+) LIMIT \?\)?$', stmt)
        if m:
            (lim,)=params; col=m.group(4); sel=[r['alive'] for r in self.rows]
            if m.group(1)=='DELETE':
                inl,_,_=self.ranked(sel, lambda r:r[col], lim); return self.delete_where(inl)
            return self.select_ranked([c.strip() for c in m.group(2).split(',')], sel, lambda r:r[col], lim)
        if stmt.startswith('UPDATE Cache SET store_time = ?'):
            (st,et,at,ac,tag,size,mode,fn,val,rowid)=params
            new=dict(store_time=st,expire_time=et,access_time=at,access_count=ac,tag=tag,size=size,mode=mode,filename=fn,value=val)
            for r in self.rows:
                cond=z3.And(r['alive'], r['rowid']==zi(rowid))
                self.size=self.size+z3.If(cond, zi(size)-r['size'], 0)
                for c,v in new.items():
                    if c in NULLABLE:
                        nv=znull(v); r[c]=N(z3.If(cond,nv.null,r[c].null), z3.If(cond,nv.val,r[c].val))
                    else: r[c]=z3.If(cond, zi(v), r[c])
            return Cur([])
        if stmt.startswith('INSERT INTO Cache('):
            (k,raw,st,et,at,ac,tag,size,mode,fn,val)=params
            new=dict(rowid=self.next_rowid,key=k,raw=raw,store_time=st,expire_time=et,access_time=at,access_count=ac,tag=tag,size=size,mode=mode,filename=fn,value=val)
            zr={c:(znull(new[c]) if c in NULLABLE else zi(new[c])) for c in COLS}
            zr['alive']=z3.BoolVal(True); zr['deleted']=z3.BoolVal(False); self.rows.append(zr); self.next_rowid+=1
            self.count=self.count+1; self.size=self.size+zi(size); return Cur([])
        raise NotImplementedError(stmt)

class MC(Cache):
    def __init__(self, con, policy, cull_limit, size_limit):
        self._directory='/m'; self._timeout=0; self._local=Local(); self._txn_id=None
        self._disk=Disk('/m',2**15,4); self._mcon=con
        self.cull_limit=cull_limit; self.eviction_policy=policy; self.statistics=0; self.size_limit=size_limit; self._page_size=4096
    @property
    def _con(self): return self._mcon
class Clock:
    def __init__(s,t): s.t=t
    def time(s): return s.t

def scenario_factory(n):
    ks=[z3.Int('k%d'%i) for i in range(n)]; ss=[z3.Int('s%d'%i) for i in range(n)]
    en=[z3.Bool('en%d'%i) for i in range(n)]; ev=[z3.Int('e%d'%i) for i in range(n)]
    key=z3.Int('key'); now=z3.Int('now'); cl=z3.Int('cl'); sl=z3.Int('sl'); pc=z3.Int('pc')
    def scenario():
        ex=Ctx.cur
        ex.pc.append(z3.Distinct(ks) if n>1 else z3.BoolVal(True))
        ex.pc.extend([cl>=0, cl<=n, pc>=1, sl>=0, key>=-2**63, key<2**63])
        rows=[]
        for i in range(n):
            r=dict(rowid=i+1,key=I(ks[i]),raw=1,store_time=I(ss[i]),expire_time=None,access_time=0,access_count=0,tag=None,size=0,mode=1,filename=None,value=7)
            rows.append(r)
        db=MDB(rows, I(pc))
        for i,r in enumerate(db.rows): r['expire_time']=N(en[i], ev[i])
        c=MC(db,'least-recently-stored', I(cl), I(sl))
        core.time=Clock(I(now)); core.type=sym_type
        c.set(I(key), 42)
        rows=db.rows
        exp=[z3.And(z3.Not(r['expire_time'].null), r['expire_time'].val<now) for r in rows]
        ndel=z3.Sum([z3.If(r['deleted'],1,0) for r in rows]); nexp=z3.Sum([z3.If(e,1,0) for e in exp])
        nexpdel=z3.Sum([z3.If(z3.And(r['deleted'],e),1,0) for r,e in zip(rows,exp)])
        zmin=lambda a,b: z3.If(a<b,a,b); vol=4096*pc
        others=[z3.And(r['deleted'],z3.Not(e)) for r,e in zip(rows,exp)]
        nothers=z3.Sum([z3.If(o,1,0) for o in others])
        order=z3.And([z3.Implies(z3.And(o,s['alive']), r['store_time']<=s['store_time']) for o,r in zip(others,rows) for s in rows])
        return B(z3.And(ndel<=cl, nexpdel==zmin(nexp,cl), z3.Implies(nothers>0, vol>=sl), order,
                        z3.Implies(vol>=sl, nothers==zmin(cl-nexpdel, len(rows)-nexpdel))))
    return scenario

if __name__=='__main__':
    for n in [int(a) for a in sys.argv[1:]]:
        ex=Explorer(); t=_t.time(); r=ex.run(scenario_factory(n))
        print('N=%d'%n, r, 'paths',ex.paths,'queries',ex.queries,'solver_s %.1f'%ex.solver_s,'wall %.1f'%(_t.time()-t))
