"""Probe: N symbolic rows, real Cache.set incl. _cull with policy order + expiry, volume symbolic."""
import re
from typing import Optional, List, Tuple
import diskcache.core as core
from diskcache.core import Cache, Disk
from p4 import Cur, Local, Clock

class DB:
    def __init__(self, rows, pagecount):
        self.rows = rows; self.settings = {'count': len(rows), 'size': sum(r['size'] for r in rows)}
        self.snapshot=None; self.next_rowid = 1000; self.pagecount = pagecount; self.deleted=[]
    def _sel(self, cols, rows):
        cols=[c.strip() for c in cols.split(',')]
        return Cur([tuple(r[c] for c in cols) for r in rows])
    def execute(self, stmt, params=()):
        if stmt == 'BEGIN IMMEDIATE':
            self.snapshot = ([dict(r) for r in self.rows], dict(self.settings)); return Cur([])
        if stmt == 'COMMIT': self.snapshot=None; return Cur([])
        if stmt == 'ROLLBACK': self.rows, self.settings = self.snapshot; return Cur([])
        if stmt == 'PRAGMA page_count': return Cur([(self.pagecount,)])
        if stmt == 'SELECT value FROM Settings WHERE key = ?': return Cur([(self.settings[params[0]],)])
        m = re.match(r'SELECT (.*) FROM Cache WHERE key = \? AND raw = \?$', stmt)
        if m:
            k, raw = params
            return self._sel(m.group(1), [r for r in self.rows if r['key'] == k and r['raw'] == raw])
        m = re.match(r'SELECT (.*) FROM Cache WHERE expire_time IS NOT NULL AND expire_time < \? ORDER BY expire_time LIMIT \?$', stmt)
        if m:
            now, lim = params
            sel = sorted([r for r in self.rows if r['expire_time'] is not None and r['expire_time'] < now], key=lambda r: r['expire_time'])[:lim]
            return self._sel(m.group(1), sel)
        m = re.match(r'DELETE FROM Cache WHERE rowid IN \(SELECT rowid FROM Cache WHERE expire_time IS NOT NULL AND expire_time < \? ORDER BY expire_time LIMIT \?\)$', stmt)
        if m:
            now, lim = params
            sel = sorted([r for r in self.rows if r['expire_time'] is not None and r['expire_time'] < now], key=lambda r: r['expire_time'])[:lim]
            return self._delete(sel)
        m = re.match(r'SELECT (.*) FROM Cache ORDER BY (\w+) LIMIT \?$', stmt)
        if m:
            (lim,) = params; col = m.group(2)
            sel = sorted(self.rows, key=lambda r: r[col])[:lim]
            return self._sel(m.group(1), sel)
        m = re.match(r'DELETE FROM Cache WHERE rowid IN \(SELECT rowid FROM Cache ORDER BY (\w+) LIMIT \?\)$', stmt)
        if m:
            (lim,) = params; col = m.group(1)
            sel = sorted(self.rows, key=lambda r: r[col])[:lim]
            return self._delete(sel)
        if stmt.startswith('UPDATE Cache SET store_time = ?'):
            (st, et, at, ac, tag, size, mode, fn, val, rowid) = params
            for r in self.rows:
                if r['rowid'] == rowid:
                    self.settings['size'] += size - r['size']
                    r.update(store_time=st, expire_time=et, access_time=at, access_count=ac, tag=tag, size=size, mode=mode, filename=fn, value=val)
            return Cur([])
        if stmt.startswith('INSERT INTO Cache('):
            (k, raw, st, et, at, ac, tag, size, mode, fn, val) = params
            self.rows.append(dict(rowid=self.next_rowid, key=k, raw=raw, store_time=st, expire_time=et, access_time=at, access_count=ac, tag=tag, size=size, mode=mode, filename=fn, value=val))
            self.next_rowid += 1; self.settings['count'] += 1; self.settings['size'] += size
            return Cur([])
        raise NotImplementedError(stmt)
    def _delete(self, sel):
        ids = [r['rowid'] for r in sel]
        for r in sel:
            self.settings['count'] -= 1; self.settings['size'] -= r['size']; self.deleted.append(r)
        self.rows = [r for r in self.rows if r['rowid'] not in ids]
        return Cur([])

class MC(Cache):
    def __init__(self, con, policy, cull_limit, size_limit):
        self._directory='/m'; self._timeout=0; self._local=Local(); self._txn_id=None
        self._disk = Disk('/m', 2**15, 4); self._mcon=con
        self.cull_limit=cull_limit; self.eviction_policy=policy; self.statistics=0; self.size_limit=size_limit; self._page_size=4096
    @property
    def _con(self): return self._mcon

Row = Tuple[int, int, Optional[int], int, int]   # key, store_time, expire_time, access_time, access_count

def mkrows(rs):
    return [dict(rowid=i+1, key=k, raw=1, store_time=st, expire_time=et, access_time=at, access_count=ac, tag=None, size=0, mode=1, filename=None, value=7) for i,(k,st,et,at,ac) in enumerate(rs)]

def check_set_cull(rs: List[Row], key: int, now: int, cull_limit: int, size_limit: int, pagecount: int) -> bool:
    """
    pre: len(rs) <= 3
    pre: all(-2**63 <= r[0] < 2**63 for r in rs) and -2**63 <= key < 2**63
    pre: len(set(r[0] for r in rs)) == len(rs)
    pre: 0 <= cull_limit <= 3 and pagecount >= 1 and size_limit >= 0
    post: _
    """
    rows = mkrows(rs)
    db = DB(rows, pagecount)
    c = MC(db, 'least-recently-stored', cull_limit, size_limit)
    core.time = Clock(now)
    pre = [dict(r) for r in rows]
    c.set(key, 42)
    # spec
    cur = [dict(r) for r in pre]
    hit = [r for r in cur if r['key'] == key]
    if hit:
        hit[0].update(store_time=now, expire_time=None, access_time=now, access_count=0, value=42)
    else:
        cur.append(dict(key=key, store_time=now, expire_time=None, value=42))
    removed_keys = set(r['key'] for r in db.deleted)
    # 1. removed at most cull_limit
    if len(db.deleted) > cull_limit: return False
    expired = [r for r in cur if r['expire_time'] is not None and r['expire_time'] < now]
    n_exp_removed = sum(1 for r in db.deleted if r['expire_time'] is not None and r['expire_time'] < now)
    # expired removed first: number of expired removed = min(len(expired), cull_limit)
    if n_exp_removed != min(len(expired), cull_limit): return False
    others = [r for r in db.deleted if not (r['expire_time'] is not None and r['expire_time'] < now)]
    vol = 4096*pagecount + 0
    if others and vol < size_limit: return False
    # policy order: every removed 'other' has store_time <= every surviving row's store_time
    surv = db.rows
    for o in others:
        for s in surv:
            if o['store_time'] > s['store_time']: return False
    if vol >= size_limit:
        want = min(cull_limit - n_exp_removed, len(cur) - n_exp_removed)
        if len(others) != want: return False
    return True
