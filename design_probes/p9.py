"""Probe: merged (fork-light) relational model; same obligation as p6 (set + _cull, least-recently-stored)."""
import re, z3
from typing import Optional
import diskcache.core as core
from diskcache.core import Cache, Disk
from crosshair.libimpl.builtinslib import SymbolicInt, SymbolicBool
from crosshair.tracers import NoTracing
from p4 import Cur, Local, Clock

def SI(e):
    with NoTracing(): return SymbolicInt(e)
def SB(e):
    with NoTracing(): return SymbolicBool(e)
def zi(x):
    if isinstance(x, SymbolicInt): return x.var
    if isinstance(x, SymbolicBool): return z3.If(x.var, 1, 0)
    return z3.IntVal(int(x))
def zb(x):
    if isinstance(x, SymbolicBool): return x.var
    if isinstance(x, SymbolicInt): return x.var != 0
    return z3.BoolVal(bool(x))

class N:   # nullable int (z3 level)
    def __init__(self, null, val): self.null = null; self.val = val
def znull(x):
    if x is None: return N(z3.BoolVal(True), z3.IntVal(0))
    return N(z3.BoolVal(False), zi(x))

NULLABLE = {'expire_time','tag','filename'}
COLS = ['rowid','key','raw','store_time','expire_time','access_time','access_count','tag','size','mode','filename','value']

class MDB:
    """all z3 inside; python-visible values are created only for SELECT outputs"""
    def __init__(self, rows, pagecount):
        with NoTracing():
            self.rows = []
            for r in rows:
                zr = {c: (znull(r[c]) if c in NULLABLE else zi(r[c])) for c in COLS}
                zr['alive'] = z3.BoolVal(True); zr['deleted'] = z3.BoolVal(False)
                self.rows.append(zr)
            self.count = z3.IntVal(len(rows)); self.size = z3.Sum([r['size'] for r in self.rows]) if rows else z3.IntVal(0)
            self.next_rowid = 1000; self.pagecount = pagecount; self.snap=None
    def out(self, zexpr, nullable=False):
        # python-visible value
        if nullable:
            isnull = SB(zexpr.null)
            if isnull: return None          # fork on None-ness
            return SI(zexpr.val)
        return SI(zexpr)
    def merged_row(self, conds, cols):
        res = []
        for c in cols:
            with NoTracing():
                if c in NULLABLE:
                    nul = z3.BoolVal(True); val = z3.IntVal(0)
                    for cond, r in zip(conds, self.rows):
                        nul = z3.If(cond, r[c].null, nul); val = z3.If(cond, r[c].val, val)
                    e = N(nul, val)
                else:
                    e = z3.IntVal(0)
                    for cond, r in zip(conds, self.rows):
                        e = z3.If(cond, r[c], e)
            res.append(self.out(e, c in NULLABLE))
        return tuple(res)
    def ranked(self, sel, keyf, lim):
        """returns in_limit conds and rank exprs (z3)"""
        with NoTracing():
            n = len(self.rows); ranks=[]
            for i in range(n):
                terms=[]
                for j in range(n):
                    if i==j: continue
                    kj, ki = keyf(self.rows[j]), keyf(self.rows[i])
                    before = z3.Or(kj < ki, z3.And(kj == ki, z3.BoolVal(j < i)))
                    terms.append(z3.If(z3.And(sel[j], before), 1, 0))
                ranks.append(z3.Sum(terms) if terms else z3.IntVal(0))
            L = zi(lim)
            inl = [z3.And(sel[i], ranks[i] < L) for i in range(n)]
            cnt = z3.Sum([z3.If(c,1,0) for c in inl]) if inl else z3.IntVal(0)
        return inl, ranks, cnt
    def select_ranked(self, cols, sel, keyf, lim):
        inl, ranks, cnt = self.ranked(sel, keyf, lim)
        c = int(SI(cnt))    # realize => fork on cardinality
        out=[]
        for j in range(c):
            with NoTracing():
                conds = [z3.And(inl[i], ranks[i] == j) for i in range(len(self.rows))]
            out.append(self.merged_row(conds, cols))
        return Cur(out)
    def delete_where(self, conds):
        with NoTracing():
            for cond, r in zip(conds, self.rows):
                self.count = self.count - z3.If(cond,1,0); self.size = self.size - z3.If(cond, r['size'], 0)
                r['deleted'] = z3.Or(r['deleted'], cond)
                r['alive'] = z3.And(r['alive'], z3.Not(cond))
        return Cur([])
    def execute(self, stmt, params=()):
        if stmt == 'BEGIN IMMEDIATE': return Cur([])
        if stmt == 'COMMIT' or stmt == 'ROLLBACK': return Cur([])
        if stmt == 'PRAGMA page_count': return Cur([(self.pagecount,)])
        if stmt == 'SELECT value FROM Settings WHERE key = ?':
            return Cur([(SI(self.size if params[0]=='size' else self.count),)])
        m = re.match(r'SELECT (.*) FROM Cache WHERE key = \? AND raw = \?$', stmt)
        if m:
            cols=[c.strip() for c in m.group(1).split(',')]; k, raw = params
            with NoTracing():
                conds = [z3.And(r['alive'], r['key'] == zi(k), r['raw'] == zi(raw)) for r in self.rows]
                found = z3.Or(conds) if conds else z3.BoolVal(False)
            if SB(found):
                return Cur([self.merged_row(conds, cols)])
            return Cur([])
        m = re.match(r'(SELECT (.*)|DELETE) FROM Cache WHERE (rowid IN \(SELECT rowid FROM Cache WHERE )?expire_time IS NOT NULL AND expire_time < \? ORDER BY expire_time LIMIT \?\)?$', stmt)
        if m:
            now, lim = params
            with NoTracing():
                sel = [z3.And(r['alive'], z3.Not(r['expire_time'].null), r['expire_time'].val < zi(now)) for r in self.rows]
            if m.group(1) == 'DELETE':
                inl,_,_ = self.ranked(sel, lambda r: r['expire_time'].val, lim); return self.delete_where(inl)
            return self.select_ranked([c.strip() for c in m.group(2).split(',')], sel, lambda r: r['expire_time'].val, lim)
        m = re.match(r'(SELECT (.*)|DELETE) FROM Cache (WHERE rowid IN \(SELECT rowid FROM Cache )?ORDER BY (\w+) LIMIT \?\)?$', stmt)
        if m:
            (lim,) = params; col = m.group(4)
            with NoTracing(): sel = [r['alive'] for r in self.rows]
            if m.group(1) == 'DELETE':
                inl,_,_ = self.ranked(sel, lambda r: r[col], lim); return self.delete_where(inl)
            return self.select_ranked([c.strip() for c in m.group(2).split(',')], sel, lambda r: r[col], lim)
        if stmt.startswith('UPDATE Cache SET store_time = ?'):
            (st, et, at, ac, tag, size, mode, fn, val, rowid) = params
            new = dict(store_time=st, expire_time=et, access_time=at, access_count=ac, tag=tag, size=size, mode=mode, filename=fn, value=val)
            with NoTracing():
                for r in self.rows:
                    cond = z3.And(r['alive'], r['rowid'] == zi(rowid))
                    self.size = self.size + z3.If(cond, zi(size) - r['size'], 0)
                    for c, v in new.items():
                        if c in NULLABLE:
                            nv = znull(v); r[c] = N(z3.If(cond, nv.null, r[c].null), z3.If(cond, nv.val, r[c].val))
                        else: r[c] = z3.If(cond, zi(v), r[c])
            return Cur([])
        if stmt.startswith('INSERT INTO Cache('):
            (k, raw, st, et, at, ac, tag, size, mode, fn, val) = params
            new = dict(rowid=self.next_rowid, key=k, raw=raw, store_time=st, expire_time=et, access_time=at, access_count=ac, tag=tag, size=size, mode=mode, filename=fn, value=val)
            with NoTracing():
                zr = {c: (znull(new[c]) if c in NULLABLE else zi(new[c])) for c in COLS}
                zr['alive'] = z3.BoolVal(True); zr['deleted']=z3.BoolVal(False); zr['inserted']=True
                self.rows.append(zr); self.next_rowid += 1
                self.count = self.count + 1; self.size = self.size + zi(size)
            return Cur([])
        raise NotImplementedError(stmt)

class MC(Cache):
    def __init__(self, con, policy, cull_limit, size_limit):
        self._directory='/m'; self._timeout=0; self._local=Local(); self._txn_id=None
        self._disk = Disk('/m', 2**15, 4); self._mcon=con
        self.cull_limit=cull_limit; self.eviction_policy=policy; self.statistics=0; self.size_limit=size_limit; self._page_size=4096
    @property
    def _con(self): return self._mcon

def mkrows(rs):
    return [dict(rowid=i+1, key=k, raw=1, store_time=st, expire_time=et, access_time=at, access_count=ac, tag=None, size=0, mode=1, filename=None, value=7) for i,(k,st,et,at,ac) in enumerate(rs)]

def body(rs, key, now, cull_limit, size_limit, pagecount):
    ks = [r[0] for r in rs]
    for i in range(len(ks)):
        for j in range(i):
            if ks[i] == ks[j]: return True
    db = MDB(mkrows(rs), pagecount)
    c = MC(db, 'least-recently-stored', cull_limit, size_limit)
    core.time = Clock(now)
    c.set(key, 42)
    with NoTracing():
        znow = zi(now); zcl = zi(cull_limit)
        rows = db.rows
        exp = [z3.And(z3.Not(r['expire_time'].null), r['expire_time'].val < znow) for r in rows]
        # rows that "exist in spec after the write" = all (prestate rows + maybe inserted); none removed before cull
        ndel = z3.Sum([z3.If(r['deleted'],1,0) for r in rows])
        nexp = z3.Sum([z3.If(e,1,0) for e in exp])
        nexpdel = z3.Sum([z3.If(z3.And(r['deleted'], e),1,0) for r,e in zip(rows,exp)])
        zmin = lambda a,b: z3.If(a<b,a,b)
        vol = 4096*zi(pagecount) + 0
        others = [z3.And(r['deleted'], z3.Not(e)) for r,e in zip(rows,exp)]
        nothers = z3.Sum([z3.If(o,1,0) for o in others])
        order = z3.And([z3.Implies(z3.And(o, s['alive']), r['store_time'] <= s['store_time']) for o,r in zip(others,rows) for s in rows])
        ok = z3.And(ndel <= zcl,
                    nexpdel == zmin(nexp, zcl),
                    z3.Implies(nothers > 0, vol >= zi(size_limit)),
                    order,
                    z3.Implies(vol >= zi(size_limit), nothers == zmin(zcl - nexpdel, len(rows) - nexpdel)))
    return bool(SB(ok))

def n2(k1:int, s1:int, e1:Optional[int], k2:int, s2:int, e2:Optional[int], key:int, now:int, cull_limit:int, size_limit:int, pagecount:int) -> bool:
    """
    pre: 0 <= cull_limit <= 3 and pagecount >= 1 and size_limit >= 0 and -2**63 <= key < 2**63
    post: _
    """
    return body([(k1,s1,e1,0,0),(k2,s2,e2,0,0)], key, now, cull_limit, size_limit, pagecount)

def n3(k1:int, s1:int, e1:Optional[int], k2:int, s2:int, e2:Optional[int], k3:int, s3:int, e3:Optional[int], key:int, now:int, cull_limit:int, size_limit:int, pagecount:int) -> bool:
    """
    pre: 0 <= cull_limit <= 3 and pagecount >= 1 and size_limit >= 0 and -2**63 <= key < 2**63
    post: _
    """
    return body([(k1,s1,e1,0,0),(k2,s2,e2,0,0),(k3,s3,e3,0,0)], key, now, cull_limit, size_limit, pagecount)

def n4(k1:int, s1:int, e1:Optional[int], k2:int, s2:int, e2:Optional[int], k3:int, s3:int, e3:Optional[int], k4:int, s4:int, e4:Optional[int], key:int, now:int, cull_limit:int, size_limit:int, pagecount:int) -> bool:
    """
    pre: 0 <= cull_limit <= 4 and pagecount >= 1 and size_limit >= 0 and -2**63 <= key < 2**63
    post: _
    """
    return body([(k1,s1,e1,0,0),(k2,s2,e2,0,0),(k3,s3,e3,0,0),(k4,s4,e4,0,0)], key, now, cull_limit, size_limit, pagecount)
