"""Probe: symbolic prefix strings; queue range selection as in Cache.pull."""
def prefix_isolation(p: str, q: str, n: int) -> bool:
    """
    pre: 1 <= len(p) <= 3 and 1 <= len(q) <= 3 and p != q
    pre: 0 <= n < 10**15
    post: _
    """
    min_key = p + '-000000000000000'
    max_key = p + '-999999999999999'
    other = '{0}-{1:015d}'.format(q, n)
    return not (min_key < other and other < max_key)
