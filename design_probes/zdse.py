"""Mini z3-backed DSE for numeric kernels: proxies + DFS path exploration by re-execution."""
import z3, time

class Ctx:
    cur = None
class PathEnd(BaseException): pass

class Explorer:
    def __init__(self):
        self.stack = []      # list of [choice(bool), flipped(bool)]
        self.paths = 0; self.queries = 0; self.solver_s = 0.0
    def run(self, fn):
        """fn() -> z3 Bool 'ok' expression or python bool. returns (status, model)"""
        while True:
            self.pos = 0; self.pc = []; Ctx.cur = self
            try:
                ok = fn()
            except PathEnd:
                ok = None
            self.paths += 1
            if ok is not None:
                okz = ok.z if isinstance(ok, B) else z3.BoolVal(bool(ok))
                s = z3.Solver(); s.add(*self.pc); s.add(z3.Not(okz))
                t=time.time(); r = s.check(); self.solver_s += time.time()-t; self.queries += 1
                if r == z3.sat: return 'cex', s.model()
                if r != z3.unsat: return 'unknown', None
            # backtrack
            while self.stack and self.stack[-1][1]: self.stack.pop()
            if not self.stack: return 'confirmed', None
            self.stack[-1][0] = not self.stack[-1][0]; self.stack[-1][1] = True
    def branch(self, cond):
        if self.pos < len(self.stack):
            c = self.stack[self.pos][0]
        else:
            # choose True first if feasible
            c = True
            self.stack.append([c, False])
        self.pos += 1
        lit = cond if c else z3.Not(cond)
        s = z3.Solver(); s.add(*self.pc); s.add(lit)
        t=time.time(); r = s.check(); self.solver_s += time.time()-t; self.queries += 1
        if r == z3.unsat:
            # infeasible: mark as flipped-done by ending path
            raise PathEnd
        if r != z3.sat: raise RuntimeError('unknown')
        self.pc.append(lit)
        return c

def lift(x):
    if isinstance(x, R): return x.z
    if isinstance(x, bool): raise TypeError
    return z3.RealVal(x)
class B:
    def __init__(self, z): self.z = z
    def __bool__(self): return Ctx.cur.branch(self.z)
class R:
    def __init__(self, z): self.z = z
    def __add__(s, o): return R(s.z + lift(o))
    __radd__ = __add__
    def __sub__(s, o): return R(s.z - lift(o))
    def __rsub__(s, o): return R(lift(o) - s.z)
    def __mul__(s, o): return R(s.z * lift(o))
    __rmul__ = __mul__
    def __truediv__(s, o): return R(s.z / lift(o))
    def __rtruediv__(s, o): return R(lift(o) / s.z)
    def __lt__(s, o): return B(s.z < lift(o))
    def __le__(s, o): return B(s.z <= lift(o))
    def __gt__(s, o): return B(s.z > lift(o))
    def __ge__(s, o): return B(s.z >= lift(o))
    def __eq__(s, o): return B(s.z == lift(o))
    def __ne__(s, o): return B(s.z != lift(o))
    def __bool__(s): return Ctx.cur.branch(s.z != 0)
    __hash__ = None

if __name__ == '__main__':
    import contextlib, sys
    from diskcache.recipes import throttle
    class StubCache:
        def __init__(self): self.d = {}
        def set(self, key, value, expire=None, tag=None, retry=False): self.d[key] = value; return True
        def get(self, key, default=None): return self.d.get(key, default)
        @contextlib.contextmanager
        def transact(self, retry=False): yield
    K = int(sys.argv[1]); count = int(sys.argv[2]); seconds = int(sys.argv[3])
    gaps = [z3.Real('g%d' % i) for i in range(K)]
    def scenario():
        clk = {'t': R(z3.RealVal(0))}; starts = []; sleeps=[0]
        def tf(): return clk['t']
        def sf(d):
            sleeps[0] += 1
            if sleeps[0] > 2*K: raise PathEnd     # bound on sleeps (liveness bound)
            clk['t'] = clk['t'] + d
        cache = StubCache()
        @throttle(cache, count, seconds, name='f', time_func=tf, sleep_func=sf)
        def f(): starts.append(clk['t'])
        Ctx.cur.pc.extend([g >= 0 for g in gaps])
        for g in gaps:
            clk['t'] = clk['t'] + R(g)
            f()
        rate = z3.RealVal(count) / z3.RealVal(seconds)
        conj = []
        for i in range(len(starts)):
            for j in range(i, len(starts)):
                conj.append((j - i + 1) <= count + rate * (starts[j].z - starts[i].z))
        return B(z3.And(conj))
    ex = Explorer(); t=time.time()
    print(ex.run(scenario), 'paths', ex.paths, 'queries', ex.queries, 'solver_s %.2f' % ex.solver_s, 'wall %.2f' % (time.time()-t))
