"""Probe: crash directive under E1. Real Cache.set replacing a file-backed value; symbolic crash index."""
import re, sys, z3, time as _t
from zdse import Explorer, Ctx, B, PathEnd, R
import p13, p14
from p13 import I, zi, N, NULLABLE, sym_type
from p14 import core, MDB2, Clock
from p4 import Cur, Local

p13.NULLABLE.add('value')
INTERN = {}; REV = {}
def intern(s):
    if s not in INTERN: INTERN[s] = len(INTERN) + 1; REV[INTERN[s]] = s
    return INTERN[s]
_znull = p13.znull
def znull2(x):
    if isinstance(x, str): return N(z3.BoolVal(False), z3.IntVal(intern(x)))
    return _znull(x)
p13.znull = znull2; p14.znull = znull2

class Env:
    def __init__(self, crash_at):
        self.n = 0; self.crash_at = crash_at; self.frozen = False; self.files = {}
    def event(self):
        """returns True if the event may take effect"""
        if self.frozen: return False
        i = self.n; self.n += 1
        if B(zi(self.crash_at) == i):
            self.frozen = True; return False
        return True
ENV = None

class CDB(MDB2):
    def __init__(self, rows, pc): super().__init__(rows, pc); self.snap = None
    def merged_row(self, conds, cols):
        res = list(super().merged_row(conds, cols))
        for i, c in enumerate(cols):
            if c == 'filename' and res[i] is not None:
                res[i] = REV[int(res[i])]
        return tuple(res)
    def state(self): return ([dict(r) for r in self.rows], self.count, self.size)
    def execute(self, stmt, params=()):
        if not ENV.event(): return Cur([])
        if stmt == 'BEGIN IMMEDIATE': self.snap = self.state(); return Cur([])
        if stmt == 'COMMIT': self.snap = None; return Cur([])
        if stmt == 'ROLLBACK': self.rows, self.count, self.size = self.snap; self.snap=None; return Cur([])
        if stmt == 'DELETE FROM Cache WHERE rowid = ?':
            return self.delete_where([z3.And(r['alive'], r['rowid']==zi(params[0])) for r in self.rows])
        return super().execute(stmt, params)
    def recover(self):
        if self.snap is not None: self.rows, self.count, self.size = self.snap; self.snap = None

class Writer:
    def __init__(self, path): self.path = path
    def write(self, chunk): ENV.event()
    def __enter__(self): return self
    def __exit__(self, *a):
        if ENV.event(): ENV.files[self.path]['complete'] = True
        return False
def m_open(path, mode='r', encoding=None):
    assert 'x' in mode
    if ENV.event(): ENV.files[path] = {'complete': False}
    return Writer(path)
class OSShim:
    def __init__(self): self.ctr = 0
    def makedirs(self, d): ENV.event()
    def urandom(self, n): self.ctr += 1; return bytes([self.ctr])*n
    def remove(self, p):
        if ENV.event():
            if p not in ENV.files: raise FileNotFoundError(p)
            del ENV.files[p]
    def removedirs(self, d): ENV.event()
class OPShim:
    join = staticmethod(lambda *a: '/'.join(a)); split = staticmethod(lambda p: tuple(p.rsplit('/',1)))
class MemIO:
    def __init__(self, d): self.d = d
    def __iter__(self): yield self.d
class IOShim: BytesIO = MemIO; StringIO = MemIO

class MC(core.Cache):
    def __init__(self, con):
        self._directory='/m'; self._timeout=0; self._local=Local(); self._txn_id=None
        self._disk=core.Disk('/m',0,4); self._mcon=con
        self.cull_limit=0; self.eviction_policy='none'; self.statistics=0; self.size_limit=2**30; self._page_size=4096
    @property
    def _con(self): return self._mcon

def scn(op):
    k0=z3.Int('k0'); k1=z3.Int('k1'); key=z3.Int('key'); crash=z3.Int('crash')
    def run():
        global ENV
        ex=Ctx.cur; ex.pc.extend([k0!=k1, crash>=0, crash<=25, key>=-2**63, key<2**63])
        INTERN.clear(); REV.clear()
        ENV=Env(I(crash))
        rows=[dict(rowid=1,key=I(k0),raw=1,store_time=0,expire_time=None,access_time=0,access_count=0,tag=None,size=4,mode=2,filename='f0',value=0),
              dict(rowid=2,key=I(k1),raw=1,store_time=0,expire_time=None,access_time=0,access_count=0,tag=None,size=0,mode=1,filename=None,value=7)]
        db=CDB(rows,1); db.rows[0]['filename']=znull2('f0'); db.rows[1]['filename']=znull2(None)
        ENV.files['/m/f0']={'complete':True}
        c=MC(db); core.time=Clock([I(z3.Int('now'))]); core.type=sym_type; core.open=m_open; core.os=OSShim(); core.op=OPShim(); core.io=IOShim
        try:
            if op=='set': c.set(I(key), b'xxxx')
            elif op=='delete': c.delete(I(key))
            elif op=='pop': c.pop(I(key))
        except Exception as e:
            if not ENV.frozen: raise
        db.recover()
        # every alive committed row with a filename names a complete existing file
        oks=[]
        for r in db.rows:
            fn=r['filename']
            for fid,name in list(REV.items()):
                f=ENV.files.get('/m/'+name)
                good = f is not None and f['complete']
                oks.append(z3.Implies(z3.And(r['alive'], z3.Not(fn.null), fn.val==fid), z3.BoolVal(good)))
        return B(z3.And(oks))
    return run

if __name__=='__main__':
    for op in ('set','delete','pop'):
        ex=Explorer(); t=_t.time(); res=ex.run(scn(op))
        print(op,res,'paths',ex.paths,'queries',ex.queries,'wall %.1f'%(_t.time()-t))
