import sys, time
from crosshair.core_and_libs import analyze_function, run_checkables
from crosshair.options import AnalysisOptionSet, AnalysisKind
from crosshair.core import analyze_calltree, ConditionCheckable
from crosshair.options import DEFAULT_OPTIONS
from crosshair.condition_parser import condition_parser
import crosshair.statespace as ss
from time import process_time
import p4

# solver statistics by wrapping solver_is_sat
stats = {'q': 0, 't': 0.0}
_orig = ss.solver_is_sat
def counted(solver, *a, **k):
    t = time.time(); r = _orig(solver, *a, **k); stats['t'] += time.time() - t; stats['q'] += 1; return r
ss.solver_is_sat = counted

opts = AnalysisOptionSet(per_condition_timeout=60, analysis_kind=[AnalysisKind.PEP316])
for name in ['check_add', 'check_touch', 'check_get']:
    fn = getattr(p4, name)
    for chk in analyze_function(fn, opts):
        assert isinstance(chk, ConditionCheckable), chk
        options = chk.options; options.deadline = process_time() + options.per_condition_timeout
        with condition_parser(options.analysis_kind):
            res = analyze_calltree(options, chk.conditions)
        print(name, res.verification_status, 'paths', res.num_confirmed_paths, [ (m.state, m.message) for m in res.messages], stats)
