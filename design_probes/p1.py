from typing import Tuple, Optional, List
from diskcache.core import args_to_key, Disk

def key2(a1: Tuple[int, ...], k1: List[Tuple[str,int]], a2: Tuple[int, ...], k2: List[Tuple[str,int]]) -> bool:
    """
    pre: len(a1) <= 2 and len(a2) <= 2 and len(k1) <= 1 and len(k2) <= 1
    pre: all(len(k) <= 1 for k, _ in k1) and all(len(k) <= 1 for k, _ in k2)
    pre: (a1, dict(k1)) != (a2, dict(k2))
    post: _
    """
    x = args_to_key(('f',), a1, dict(k1), False, ())
    y = args_to_key(('f',), a2, dict(k2), False, ())
    return x != y

def put_int(k: int) -> bool:
    """
    post: _
    """
    d = Disk('/x', 0, 0)
    try:
        dk, raw = d.put(k)
    except Exception:
        return True
    return (not raw) or (type(dk) is int and dk == k and -2**63 <= dk < 2**63)

def hash_eq(k: int, f: float) -> bool:
    """
    pre: -2**53 <= k <= 2**53
    pre: f == k
    post: _
    """
    d = Disk('/x', 0, 0)
    return d.hash(k) == d.hash(f)
