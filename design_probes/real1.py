import diskcache, tempfile, shutil, os, time, warnings
from unittest import mock
d = tempfile.mkdtemp(prefix='dcp-')
try:
    c = diskcache.Cache(d + '/a', disk_min_file_size=4)
    c['t'] = 'ab\rcd\r\nef'; print('C01 CR:', repr(c['t']))
    c['n'] = float('nan'); print('C01 nan:', repr(c['n']))
    c['z'] = -0.0; print('C01 -0.0:', repr(c['z']))
    c['i'] = float('inf'); print('C01 inf:', repr(c['i']))
    try:
        c['s'] = 'x\ud800yyyy'
    except Exception as e: print('C01 surrogate large:', type(e).__name__, 'check:', [str(w.message)[:40] for w in c.check()])
    c.clear(); c.check(fix=True)
    # C04
    now = time.time()
    with mock.patch('time.time', mock.Mock(return_value=now)):
        for i in range(101): c.set(i, i, expire=5)
    with mock.patch('time.time', mock.Mock(return_value=now+10)):
        print('C04 expire returned', c.expire(), 'left', len(c))
    c.clear()
    # C06
    c['k'] = b'x'*100
    try:
        with c.transact():
            c['k'] = b'y'*100
            raise RuntimeError
    except RuntimeError: pass
    try: print('C06 after abort:', c['k'][:3])
    except Exception as e: print('C06 after abort:', type(e).__name__, e, 'in:', 'k' in c, [str(w.message)[:30] for w in c.check()])
    c.clear(); c.check(fix=True)
    # C10
    c.push('A', prefix='a'); c.push('B', prefix='a-5')
    print('C10:', c.pull(prefix='a'), c.pull(prefix='a'))
    c.clear()
    # C13
    f = diskcache.FanoutCache(d + '/f', shards=8)
    f[1] = 'one'; print('C13 fanout get 1.0:', f.get(1.0), ' cache:', (c.set(1,'one'), c.get(1.0)))
    c.clear()
    # C16
    @c.memoize()
    def g(*a, **k): return (a, k)
    g(1, None, 'a'); print('C16:', g(1, a=None))
    c.clear()
    # C17
    c['big'] = b'z'*100
    os.makedirs(d + '/a/zz/yy'); open(d + '/a/zz/yy/junk.val','w').close()
    w1 = c.check(fix=True); w2 = c.check(fix=True); w3 = c.check()
    print('C17:', len(w1), [str(w.message)[:25] for w in w2], len(w3))
    # C08 fault: statement failure after file written
    class Boom(Exception): pass
    orig = diskcache.Cache._row_insert
    def bad(self, *a): raise Boom()
    with mock.patch.object(diskcache.Cache, '_row_insert', bad):
        try: c.set('new', b'q'*100)
        except Boom: pass
    print('C08 leak:', [str(w.message)[:20] for w in c.check()])
finally:
    shutil.rmtree(d)
