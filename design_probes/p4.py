"""Prototype: real Cache.add / touch / get executed against a tiny symbolic SQL model under CrossHair."""
import sqlite3, threading, re
from typing import Optional, List, Tuple
import diskcache.core as core
from diskcache.core import Cache, Disk, Timeout

COLS = ['rowid','key','raw','store_time','expire_time','access_time','access_count','tag','size','mode','filename','value']

class Cur:
    def __init__(self, rows): self._rows = rows
    def fetchall(self): return self._rows

class ModelCon:
    def __init__(self, rows, settings):
        self.rows = rows      # list of dict
        self.settings = settings
        self.snapshot = None
        self.log = []
        self.next_rowid = 100
    def execute(self, stmt, params=()):
        self.log.append(stmt)
        if stmt == 'BEGIN IMMEDIATE':
            self.snapshot = ([dict(r) for r in self.rows], dict(self.settings)); return Cur([])
        if stmt == 'COMMIT':
            self.snapshot = None; return Cur([])
        if stmt == 'ROLLBACK':
            self.rows, self.settings = self.snapshot; self.snapshot=None; return Cur([])
        m = re.match(r'SELECT (.*) FROM Cache WHERE key = \? AND raw = \?$', stmt)
        if m:
            cols = [c.strip() for c in m.group(1).split(',')]
            k, raw = params
            out = [tuple(r[c] for c in cols) for r in self.rows if r['key'] == k and r['raw'] == raw]
            return Cur(out)
        m = re.match(r'SELECT (.*) FROM Cache WHERE key = \? AND raw = \? AND \(expire_time IS NULL OR expire_time > \?\)$', stmt)
        if m:
            cols = [c.strip() for c in m.group(1).split(',')]
            k, raw, now = params
            out = [tuple(r[c] for c in cols) for r in self.rows if r['key'] == k and r['raw'] == raw and (r['expire_time'] is None or r['expire_time'] > now)]
            return Cur(out)
        if stmt.startswith('UPDATE Cache SET store_time = ?'):
            (st, et, at, ac, tag, size, mode, fn, val, rowid) = params
            for r in self.rows:
                if r['rowid'] == rowid:
                    self.settings['size'] += size - r['size']
                    r.update(store_time=st, expire_time=et, access_time=at, access_count=ac, tag=tag, size=size, mode=mode, filename=fn, value=val)
            return Cur([])
        if stmt == 'UPDATE Cache SET expire_time = ? WHERE rowid = ?':
            et, rowid = params
            for r in self.rows:
                if r['rowid'] == rowid: r['expire_time'] = et
            return Cur([])
        if stmt.startswith('INSERT INTO Cache('):
            (k, raw, st, et, at, ac, tag, size, mode, fn, val) = params
            self.rows.append(dict(rowid=self.next_rowid, key=k, raw=raw, store_time=st, expire_time=et, access_time=at, access_count=ac, tag=tag, size=size, mode=mode, filename=fn, value=val))
            self.next_rowid += 1
            self.settings['count'] += 1; self.settings['size'] += size
            return Cur([])
        raise NotImplementedError(stmt)

class Local: pass

class ModelCache(Cache):
    def __init__(self, con, now):
        self._directory = '/m'
        self._timeout = 0
        self._local = Local()
        self._txn_id = None
        self._disk = Disk('/m', 2**15, 4)
        self._mcon = con
        self.cull_limit = 0
        self.eviction_policy = 'least-recently-stored'
        self.statistics = 0
    @property
    def _con(self): return self._mcon

class Clock:
    def __init__(self, t): self.t = t
    def time(self): return self.t

def mk(k1: int, e1: Optional[int], present: bool):
    rows = []
    if present:
        rows.append(dict(rowid=1, key=k1, raw=1, store_time=0, expire_time=e1, access_time=0, access_count=0, tag=None, size=0, mode=1, filename=None, value=7))
    return ModelCon(rows, {'count': len(rows), 'size': 0})

def check_add(k1: int, e1: Optional[int], present: bool, key: int, value: int, expire: Optional[int], now: int) -> bool:
    """
    pre: -2**63 <= k1 < 2**63 and -2**63 <= key < 2**63 and -2**63 <= value < 2**63
    post: _
    """
    con = mk(k1, e1, present)
    c = ModelCache(con, now)
    core.time = Clock(now)
    live = present and k1 == key and (e1 is None or e1 > now)
    res = c.add(key, value, expire=expire)
    if res != (not live): return False
    # post state
    match = [r for r in con.rows if r['key'] == key and r['raw'] == 1]
    if len(match) != 1: return False
    r = match[0]
    if live:
        return r['value'] == 7 and r['expire_time'] == e1
    return r['value'] == value and r['expire_time'] == (None if expire is None else now + expire) and con.settings['count'] == len(con.rows)

def check_touch(k1: int, e1: Optional[int], present: bool, key: int, expire: Optional[int], now: int) -> bool:
    """
    pre: -2**63 <= k1 < 2**63 and -2**63 <= key < 2**63
    post: _
    """
    con = mk(k1, e1, present)
    c = ModelCache(con, now)
    core.time = Clock(now)
    live = present and k1 == key and (e1 is None or e1 > now)
    res = c.touch(key, expire=expire)
    if res != live: return False
    if live:
        return con.rows[0]['expire_time'] == (None if expire is None else now + expire)
    return (not present) or con.rows[0]['expire_time'] == e1

def check_get(k1: int, e1: Optional[int], present: bool, key: int, now: int) -> bool:
    """
    pre: -2**63 <= k1 < 2**63 and -2**63 <= key < 2**63
    post: _
    """
    con = mk(k1, e1, present)
    c = ModelCache(con, now)
    core.time = Clock(now)
    live = present and k1 == key and (e1 is None or e1 > now)
    res = c.get(key, default=-1)
    return res == (7 if live else -1)
