"""Probe: Disk.store/fetch round trip with FS model; symbolic str/bytes; threshold symbolic."""
import io, sqlite3
import diskcache.core as core
from diskcache.core import Disk

class FS:
    def __init__(self): self.files = {}
fs = None

class Writer:
    def __init__(self, path, mode, encoding, newline=None):
        self.path=path; self.mode=mode; self.encoding=encoding; self.newline=newline; self.buf=[]
        if path in fs.files: raise FileExistsError(path)
        fs.files[path] = None
    def write(self, chunk): self.buf.append(chunk)
    def __enter__(self): return self
    def __exit__(self, *a):
        if 'b' in self.mode: fs.files[self.path] = b''.join(self.buf)
        else:
            s = ''.join(self.buf)
            # newline=None on write: '\n' -> os.linesep ('\n' on linux)
            fs.files[self.path] = s.encode(self.encoding)
        return False
class Reader:
    def __init__(self, path, mode, encoding=None, newline=None):
        if path not in fs.files: raise FileNotFoundError(path)
        self.data = fs.files[path]; self.mode=mode; self.encoding=encoding; self.newline=newline
    def read(self):
        if 'b' in self.mode: return self.data
        s = self.data.decode(self.encoding)
        if self.newline is None:
            s = s.replace('\r\n', '\n').replace('\r', '\n')
        return s
    def __enter__(self): return self
    def __exit__(self, *a): return False
def m_open(path, mode='r', encoding=None, newline=None):
    if 'x' in mode or 'w' in mode: return Writer(path, mode, encoding, newline)
    return Reader(path, mode, encoding, newline)
class OSShim:
    def makedirs(self, d): pass
    def urandom(self, n): return b'\x01'*n
class OPShim:
    join = staticmethod(lambda *a: '/'.join(a))
    split = staticmethod(lambda p: tuple(p.rsplit('/',1)))
    getsize = staticmethod(lambda p: len(fs.files[p]))

def setup():
    global fs
    fs = FS(); core.open = m_open; core.os = OSShim(); core.op = OPShim()

def rt_bytes(v: bytes, thr: int) -> bool:
    """
    pre: len(v) <= 3 and 0 <= thr <= 4
    post: _
    """
    setup(); d = Disk('/m', thr, 4)
    size, mode, fn, dbv = d.store(v, False)
    out = d.fetch(mode, fn, dbv, False)
    return out == v and type(out) is bytes and (fn is None or size == len(v))

def rt_str(v: str, thr: int) -> bool:
    """
    pre: len(v) <= 2 and 0 <= thr <= 3
    post: _
    """
    setup(); d = Disk('/m', thr, 4)
    size, mode, fn, dbv = d.store(v, False)
    out = d.fetch(mode, fn, dbv, False)
    return out == v

def rt_bytes_file(v: bytes) -> bool:
    """
    pre: len(v) <= 2
    post: _
    """
    setup(); d = Disk('/m', 0, 4)
    size, mode, fn, dbv = d.store(v, False)
    out = d.fetch(mode, fn, dbv, False)
    return out == v and (fn is None or size == len(v))

def rt_bytes_raw(v: bytes) -> bool:
    """
    pre: len(v) <= 2
    post: _
    """
    setup(); d = Disk('/m', 10, 4)
    size, mode, fn, dbv = d.store(v, False)
    out = d.fetch(mode, fn, dbv, False)
    return out == v

class MemIO:
    def __init__(self, data): self.data = data
    def __iter__(self):
        if len(self.data): yield self.data
class IOShim:
    BytesIO = MemIO
    StringIO = MemIO

def rt_bytes2(v: bytes, thr: int) -> bool:
    """
    pre: len(v) <= 3 and 0 <= thr <= 4
    post: _
    """
    setup(); core.io = IOShim; d = Disk('/m', thr, 4)
    size, mode, fn, dbv = d.store(v, False)
    out = d.fetch(mode, fn, dbv, False)
    return out == v and type(out) is bytes and (fn is None or size == len(v))
