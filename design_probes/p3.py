from typing import Tuple, Optional, List, Union, Dict
from diskcache.core import args_to_key

V = Union[None, int, str]

def shape_3_0__1_1(x1: V, x2: V, x3: V, y1: V, n: str, y2: V) -> bool:
    """
    post: _
    """
    x = args_to_key(('f',), (x1, x2, x3), {}, False, ())
    y = args_to_key(('f',), (y1,), {n: y2}, False, ())
    return x != y

def shape_2_0__2_0(x1: V, x2: V, y1: V, y2: V) -> bool:
    """
    post: _
    """
    if (x1, x2) == (y1, y2): return True
    x = args_to_key(('f',), (x1, x2), {}, False, ())
    y = args_to_key(('f',), (y1,y2), {}, False, ())
    return x != y
def shape_1_1__1_1(x1: V, n1: str, x2: V, y1: V, n2:str, y2: V) -> bool:
    """
    post: _
    """
    if (x1, n1, x2) == (y1, n2, y2): return True
    x = args_to_key(('f',), (x1,), {n1:x2}, False, ())
    y = args_to_key(('f',), (y1,), {n2:y2}, False, ())
    return x != y
