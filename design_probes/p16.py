"""Probe: nested interference under E1; linearizability of two incr() on one key; mutant = SELECT hoisted out of txn."""
import re, sys, z3, time as _t
from zdse import Explorer, Ctx, B, PathEnd, R
import p13, p14, p15
from p13 import I, zi, N, sym_type
from p14 import core, Clock
from p15 import CDB, znull2
from p4 import Cur, Local

class Sched:
    def __init__(self, at): self.at=at; self.n=0; self.active=True; self.hook=None; self.ran=False
    def boundary(self):
        if not self.active: return
        i=self.n; self.n+=1
        if B(zi(self.at)==i):
            self.active=False; self.ran=True
            try: self.hook()
            finally: self.active=True
S=None

class LDB(CDB):
    """adds write lock + per-connection view"""
    def __init__(self, rows, pc): super().__init__(rows, pc); self.locked_by=None
class Con:
    def __init__(self, db, who): self.db=db; self.who=who
    def execute(self, stmt, params=()):
        S.boundary()
        db=self.db
        if stmt=='BEGIN IMMEDIATE':
            if db.locked_by is not None: raise core.sqlite3.OperationalError('database is locked')
            db.locked_by=self.who; db.snap=db.state(); return Cur([])
        if stmt=='COMMIT': db.locked_by=None; db.snap=None; return Cur([])
        if stmt=='ROLLBACK': db.rows,db.count,db.size=db.snap; db.snap=None; db.locked_by=None; return Cur([])
        # reader on another connection while a txn is open sees the committed snapshot
        if db.locked_by is not None and db.locked_by != self.who:
            if not stmt.startswith('SELECT'): raise core.sqlite3.OperationalError('database is locked')
            cur=db.state(); db.rows,db.count,db.size=[dict(r) for r in db.snap[0]],db.snap[1],db.snap[2]
            try: return self._do(stmt, params)
            finally: db.rows,db.count,db.size=cur
        return self._do(stmt, params)
    def _do(self, stmt, params):
        db=self.db
        m=re.match(r'UPDATE Cache SET store_time = \?, value = \? WHERE rowid = \?$', stmt)
        if m:
            st,val,rowid=params
            for r in db.rows:
                cond=z3.And(r['alive'], r['rowid']==zi(rowid))
                r['store_time']=z3.If(cond, zi(st), r['store_time'])
                nv=znull2(val); r['value']=N(z3.If(cond,nv.null,r['value'].null), z3.If(cond,nv.val,r['value'].val))
            return Cur([])
        return MDBexec(db, stmt, params)
def MDBexec(db, stmt, params):
    import p14 as _p14
    return _p14.MDB2.execute(db, stmt, params)

class Env0:
    frozen=False
    def event(self): return True
class MC(core.Cache):
    def __init__(self, db, who):
        self._directory='/m'; self._timeout=0; self._local=Local(); self._txn_id=None
        self._disk=core.Disk('/m',2**15,4); self._mcon=Con(db, who)
        self.cull_limit=0; self.eviction_policy='none'; self.statistics=0; self.size_limit=2**30; self._page_size=4096
    @property
    def _con(self): return self._mcon
class Thr:
    cur=1
    def get_ident(self): return Thr.cur

def scn():
    k0=z3.Int('k0'); v=z3.Int('v'); d1=z3.Int('d1'); d2=z3.Int('d2'); at=z3.Int('at'); present=z3.Bool('present')
    def run():
        global S
        ex=Ctx.cur; ex.pc.extend([at>=0, at<=12, k0>=-2**63, k0<2**63, v>-2**40, v<2**40, d1>-2**40, d1<2**40, d2>-2**40, d2<2**40])
        p15.ENV=Env0(); p15.INTERN.clear(); p15.REV.clear()
        rows=[dict(rowid=1,key=I(k0),raw=1,store_time=0,expire_time=None,access_time=0,access_count=0,tag=None,size=0,mode=1,filename=None,value=I(v))]
        db=LDB(rows,1); db.rows[0]['alive']=present; db.count=z3.If(present,1,0)
        A=MC(db,'A'); Bc=MC(db,'B'); core.time=Clock([I(z3.Int('now'))]); core.type=sym_type; core.threading=Thr()
        S=Sched(I(at)); res={}
        def hook():
            Thr.cur=2
            try: res['B']=Bc.incr(I(k0), I(d2))
            except core.Timeout: res['B']='timeout'
            finally: Thr.cur=1
        S.hook=hook
        res['A']=A.incr(I(k0), I(d1))
        base=z3.If(present, v, 0)
        # final value
        alive=[r for r in db.rows]
        fin=z3.IntVal(0); n_alive=z3.Sum([z3.If(r['alive'],1,0) for r in db.rows])
        for r in db.rows: fin=z3.If(r['alive'], r['value'].val, fin)
        ra=zi(res['A'])
        if 'B' not in res:          # B never ran (at beyond last boundary)
            return B(z3.And(n_alive==1, fin==base+d1, ra==base+d1))
        if isinstance(res['B'], str):
            return B(z3.And(n_alive==1, fin==base+d1, ra==base+d1))
        rb=zi(res['B'])
        ab=z3.And(ra==base+d1, rb==base+d1+d2); ba=z3.And(rb==base+d2, ra==base+d1+d2)
        return B(z3.And(n_alive==1, fin==base+d1+d2, z3.Or(ab, ba)))
    return run

if __name__=='__main__':
    ex=Explorer(); t=_t.time(); res=ex.run(scn())
    print('incr||incr',res,'paths',ex.paths,'queries',ex.queries,'wall %.1f'%(_t.time()-t))
